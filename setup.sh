#!/bin/sh
# Build the framework offline from files on disk and warm the dependency target dir.
set -e
cd "$(dirname "$0")"
export CARGO_NET_OFFLINE=true
(cd driver && cargo +nightly build --release --offline)
if [ -d pestfacts ]; then (cd pestfacts && cp /repo/Cargo.lock Cargo.lock && cargo build --release --offline); fi
python3 rules/facts.py all
