// lrfacts: rustc_private driver that dumps the resolved program (MIR, types, impls) of a
// crate as JSON facts. Injected with RUSTC_WORKSPACE_WRAPPER under `cargo +nightly check`.
// It runs no code of the analysed crate: everything comes from rustc's own analysis results.
#![feature(rustc_private)]
#![allow(unused)]

extern crate rustc_abi;
extern crate rustc_ast;
extern crate rustc_data_structures;
extern crate rustc_driver;
extern crate rustc_hir;
extern crate rustc_interface;
extern crate rustc_middle;
extern crate rustc_session;
extern crate rustc_span;
extern crate rustc_trait_selection;
extern crate rustc_infer;

mod json;
use json::J;

use rustc_hir::def::DefKind;
use rustc_hir::def_id::{DefId, LocalDefId};
use rustc_middle::mir::*;
use rustc_middle::ty::print::with_no_trimmed_paths;
use rustc_middle::ty::{self, GenericArgKind, GenericArgsRef, Instance, Ty, TyCtxt, TypingEnv, TypeVisitableExt};
use rustc_span::Span;
use std::collections::{BTreeMap, HashMap, HashSet, VecDeque};

struct Cx<'tcx> {
    tcx: TyCtxt<'tcx>,
    tys: Vec<J>,
    ty_map: HashMap<Ty<'tcx>, usize>,
    adt_seen: HashSet<DefId>,
    adt_queue: VecDeque<DefId>,
    trait_seen: HashSet<DefId>,
    trait_queue: VecDeque<DefId>,
}

fn s(x: impl Into<String>) -> J {
    J::Str(x.into())
}
fn i(x: usize) -> J {
    J::Int(x as i128)
}

impl<'tcx> Cx<'tcx> {
    fn canon(&self, did: DefId) -> String {
        format!(
            "{}{}",
            self.tcx.crate_name(did.krate),
            self.tcx.def_path(did).to_string_no_crate_verbose()
        )
    }
    fn pretty(&self, did: DefId) -> String {
        with_no_trimmed_paths!(self.tcx.def_path_str(did))
    }
    fn want_trait(&mut self, did: DefId) {
        if self.trait_seen.insert(did) {
            self.trait_queue.push_back(did);
        }
    }
    fn want_adt(&mut self, did: DefId) {
        if self.adt_seen.insert(did) {
            self.adt_queue.push_back(did);
        }
    }

    fn gargs(&mut self, args: &[ty::GenericArg<'tcx>]) -> J {
        let mut v = vec![];
        for a in args {
            match a.kind() {
                GenericArgKind::Type(t) => v.push(i(self.ty(t))),
                GenericArgKind::Lifetime(_) => v.push(s("'")),
                GenericArgKind::Const(c) => v.push(J::obj(vec![("const", s(format!("{:?}", c)))])),
            }
        }
        J::Arr(v)
    }

    fn ty(&mut self, t: Ty<'tcx>) -> usize {
        if let Some(&k) = self.ty_map.get(&t) {
            return k;
        }
        let tcx = self.tcx;
        let j = match t.kind() {
            ty::Bool | ty::Char | ty::Int(_) | ty::Uint(_) | ty::Float(_) | ty::Str | ty::Never => {
                J::obj(vec![("k", s("prim")), ("name", s(t.to_string()))])
            }
            ty::Adt(def, args) => {
                self.want_adt(def.did());
                let a = self.gargs(args.as_slice());
                J::obj(vec![("k", s("adt")), ("id", s(self.canon(def.did()))), ("args", a)])
            }
            ty::Ref(_, inner, m) => {
                let k = self.ty(*inner);
                J::obj(vec![("k", s("ref")), ("m", J::Bool(m.is_mut())), ("t", i(k))])
            }
            ty::RawPtr(inner, m) => {
                let k = self.ty(*inner);
                J::obj(vec![("k", s("ptr")), ("m", J::Bool(m.is_mut())), ("t", i(k))])
            }
            ty::Slice(inner) => {
                let k = self.ty(*inner);
                J::obj(vec![("k", s("slice")), ("t", i(k))])
            }
            ty::Array(inner, len) => {
                let k = self.ty(*inner);
                let l = match len.try_to_target_usize(tcx) {
                    Some(n) => J::Int(n as i128),
                    None => J::Null,
                };
                J::obj(vec![("k", s("array")), ("t", i(k)), ("len", l)])
            }
            ty::Tuple(ts) => {
                let v: Vec<J> = ts.iter().map(|x| i(self.ty(x))).collect();
                J::obj(vec![("k", s("tuple")), ("of", J::Arr(v))])
            }
            ty::Param(p) => J::obj(vec![
                ("k", s("param")),
                ("name", s(p.name.as_str())),
                ("i", J::Int(p.index as i128)),
            ]),
            ty::Dynamic(preds, ..) => {
                let mut traits = vec![];
                let mut pargs = J::Arr(vec![]);
                if let Some(p) = preds.principal() {
                    let tr = p.skip_binder();
                    self.want_trait(tr.def_id);
                    traits.push(s(self.canon(tr.def_id)));
                    pargs = self.gargs(tr.args.as_slice());
                }
                let autos: Vec<J> = preds.auto_traits().map(|d| s(self.canon(d))).collect();
                J::obj(vec![
                    ("k", s("dyn")),
                    ("traits", J::Arr(traits)),
                    ("pargs", pargs),
                    ("autos", J::Arr(autos)),
                ])
            }
            ty::FnDef(did, args) => {
                let a = self.gargs(args.as_slice());
                J::obj(vec![("k", s("fndef")), ("id", s(self.canon(*did))), ("args", a)])
            }
            ty::Closure(did, args) => {
                let ups: Vec<J> = args.as_closure().upvar_tys().iter().map(|x| i(self.ty(x))).collect();
                J::obj(vec![("k", s("closure")), ("id", s(self.canon(*did))), ("upvars", J::Arr(ups))])
            }
            ty::FnPtr(..) => J::obj(vec![("k", s("fnptr")), ("s", s(with_no_trimmed_paths!(t.to_string())))]),
            ty::Alias(at) => {
                let a = self.gargs(at.args.as_slice());
                J::obj(vec![
                    ("k", s("alias")),
                    ("id", s(format!("{:?}", at.kind))),
                    ("args", a),
                    ("s", s(with_no_trimmed_paths!(t.to_string()))),
                ])
            }
            ty::Foreign(did) => J::obj(vec![("k", s("foreign")), ("id", s(self.canon(*did)))]),
            _ => J::obj(vec![("k", s("other")), ("s", s(with_no_trimmed_paths!(format!("{:?}", t))))]),
        };
        let k = self.tys.len();
        self.tys.push(j);
        self.ty_map.insert(t, k);
        k
    }

    fn span(&self, sp: Span) -> (String, usize, usize) {
        let sm = self.tcx.sess.source_map();
        let cs = sp.source_callsite();
        let lo = sm.lookup_char_pos(cs.lo());
        let hi = sm.lookup_char_pos(cs.hi());
        let f = format!("{}", lo.file.name.prefer_local_unconditionally());
        (f, lo.line, hi.line)
    }
    fn line(&self, sp: Span) -> usize {
        let sm = self.tcx.sess.source_map();
        sm.lookup_char_pos(sp.source_callsite().lo()).line
    }
    fn macros(&self, sp: Span) -> J {
        let mut v = vec![];
        for e in sp.macro_backtrace() {
            match e.kind {
                rustc_span::ExpnKind::Macro(_, name) => v.push(s(name.as_str())),
                rustc_span::ExpnKind::Desugaring(d) => v.push(s(format!("desugar:{:?}", d))),
                rustc_span::ExpnKind::AstPass(p) => v.push(s(format!("astpass:{:?}", p))),
                _ => {}
            }
        }
        J::Arr(v)
    }

    fn place(&mut self, p: &Place<'tcx>) -> J {
        let mut pr = vec![];
        for e in p.projection.iter() {
            pr.push(match e {
                ProjectionElem::Deref => J::Arr(vec![s("d")]),
                ProjectionElem::Field(f, t) => J::Arr(vec![s("f"), i(f.as_usize()), i(self.ty(t))]),
                ProjectionElem::Index(l) => J::Arr(vec![s("i"), i(l.as_usize())]),
                ProjectionElem::ConstantIndex { offset, from_end, .. } => {
                    J::Arr(vec![s("ci"), J::Int(offset as i128), J::Bool(from_end)])
                }
                ProjectionElem::Subslice { from, to, from_end } => {
                    J::Arr(vec![s("s"), J::Int(from as i128), J::Int(to as i128), J::Bool(from_end)])
                }
                ProjectionElem::Downcast(name, v) => J::Arr(vec![
                    s("v"),
                    i(v.as_usize()),
                    s(name.map(|n| n.to_string()).unwrap_or_default()),
                ]),
                _ => J::Arr(vec![s("o")]),
            });
        }
        J::Arr(vec![i(p.local.as_usize()), J::Arr(pr)])
    }

    fn fnref(&mut self, did: DefId, args: GenericArgsRef<'tcx>, env: TypingEnv<'tcx>) -> J {
        let tcx = self.tcx;
        let mut o = vec![
            ("id", s(self.canon(did))),
            ("name", s(self.pretty(did))),
            ("krate", s(tcx.crate_name(did.krate).as_str())),
        ];
        let ga = self.gargs(args.as_slice());
        o.push(("args", ga));
        if let Some(tr) = tcx.trait_of_assoc(did) {
            self.want_trait(tr);
            o.push(("trait", s(self.canon(tr))));
            if args.len() > 0 {
                if let Some(t0) = args.get(0).and_then(|a| a.as_type()) {
                    o.push(("self_ty", i(self.ty(t0))));
                }
            }
        }
        if let Some(im) = tcx.impl_of_assoc(did) {
            o.push(("impl", s(self.canon(im))));
            let st = tcx.type_of(im).instantiate_identity().skip_norm_wip();
            o.push(("impl_self", i(self.ty(st))));
            if let Some(tr) = tcx.impl_opt_trait_ref(im) {
                let tr = tr.instantiate_identity().skip_norm_wip();
                o.push(("impl_trait", s(self.canon(tr.def_id))));
            }
        }
        // resolve through the trait system where possible
        let res = std::panic::catch_unwind(std::panic::AssertUnwindSafe(|| {
            Instance::try_resolve(tcx, env, did, args)
        }));
        if let Ok(Ok(Some(inst))) = res {
            let rd = inst.def_id();
            let kind = format!("{:?}", inst.def);
            let kind = kind.split('(').next().unwrap_or("").to_string();
            let mut r = vec![("id", s(self.canon(rd))), ("name", s(self.pretty(rd))), ("kind", s(kind))];
            if let Some(im) = tcx.impl_of_assoc(rd) {
                let st = tcx.type_of(im).instantiate_identity().skip_norm_wip();
                r.push(("impl_self", i(self.ty(st))));
            }
            let ra = self.gargs(inst.args.as_slice());
            r.push(("args", ra));
            o.push(("res", J::obj(r)));
        }
        J::obj(o)
    }

    fn constant(&mut self, c: &ConstOperand<'tcx>, env: TypingEnv<'tcx>) -> J {
        let tcx = self.tcx;
        let t = c.const_.ty();
        let mut o = vec![("ty", i(self.ty(t)))];
        if let ty::FnDef(did, args) = t.kind() {
            o.push(("fn", self.fnref(*did, args, env)));
            return J::obj(o);
        }
        if let Const::Unevaluated(uv, _) = c.const_ {
            o.push(("uneval", s(self.canon(uv.def))));
            if uv.promoted.is_some() {
                o.push(("promoted", J::Int(uv.promoted.unwrap().as_usize() as i128)));
            }
        }
        if t.is_integral() || t.is_bool() || t.is_char() {
            let r = std::panic::catch_unwind(std::panic::AssertUnwindSafe(|| c.const_.try_eval_scalar_int(tcx, env)));
            if let Ok(Some(si)) = r {
                let sz = si.size();
                let v: i128 = if t.is_signed() { si.to_int(sz) } else { si.to_uint(sz) as i128 };
                o.push(("val", J::Int(v)));
            }
        } else if t.is_floating_point() {
            o.push(("fval", s(format!("{}", c.const_))));
        } else if let ty::Ref(_, inner, _) = t.kind() {
            if inner.is_str() {
                if let Const::Val(cv, _) = c.const_ {
                    if let Some(b) = cv.try_get_slice_bytes_for_diagnostics(tcx) {
                        o.push(("str", s(String::from_utf8_lossy(b).to_string())));
                    }
                } else {
                    let r = std::panic::catch_unwind(std::panic::AssertUnwindSafe(|| c.const_.eval(tcx, env, c.span)));
                    if let Ok(Ok(cv)) = r {
                        if let Some(b) = cv.try_get_slice_bytes_for_diagnostics(tcx) {
                            o.push(("str", s(String::from_utf8_lossy(b).to_string())));
                        }
                    }
                }
            }
        }
        J::obj(o)
    }

    fn operand(&mut self, op: &Operand<'tcx>, env: TypingEnv<'tcx>) -> J {
        match op {
            Operand::Copy(p) => {
                let pl = self.place(p);
                J::Arr(vec![s("c"), pl])
            }
            Operand::Move(p) => {
                let pl = self.place(p);
                J::Arr(vec![s("m"), pl])
            }
            Operand::Constant(c) => {
                let k = self.constant(c, env);
                J::Arr(vec![s("k"), k])
            }
            _ => J::Arr(vec![s("x"), s(format!("{:?}", op))]),
        }
    }

    fn rvalue(&mut self, rv: &Rvalue<'tcx>, body: &Body<'tcx>, env: TypingEnv<'tcx>) -> J {
        let tcx = self.tcx;
        match rv {
            Rvalue::Use(op, ..) => J::obj(vec![("k", s("use")), ("o", self.operand(op, env))]),
            Rvalue::CopyForDeref(p) => {
                let pl = self.place(p);
                J::obj(vec![("k", s("use")), ("o", J::Arr(vec![s("c"), pl]))])
            }
            Rvalue::Ref(_, bk, p) => {
                let m = matches!(bk, BorrowKind::Mut { .. });
                J::obj(vec![("k", s("ref")), ("m", J::Bool(m)), ("p", self.place(p))])
            }
            Rvalue::RawPtr(_, p) => J::obj(vec![("k", s("rawptr")), ("p", self.place(p))]),
            Rvalue::Cast(ck, op, t) => {
                let from = op.ty(&body.local_decls, tcx);
                let f = self.ty(from);
                let to = self.ty(*t);
                let ckd = format!("{:?}", ck);
                J::obj(vec![
                    ("k", s("cast")),
                    ("ck", s(ckd)),
                    ("o", self.operand(op, env)),
                    ("from", i(f)),
                    ("to", i(to)),
                ])
            }
            Rvalue::BinaryOp(op, ab) => {
                let (a, b) = &**ab;
                J::obj(vec![
                    ("k", s("bin")),
                    ("op", s(format!("{:?}", op))),
                    ("a", self.operand(a, env)),
                    ("b", self.operand(b, env)),
                ])
            }
            Rvalue::UnaryOp(op, a) => J::obj(vec![
                ("k", s("un")),
                ("op", s(format!("{:?}", op))),
                ("a", self.operand(a, env)),
            ]),
            Rvalue::Discriminant(p) => J::obj(vec![("k", s("discr")), ("p", self.place(p))]),
            Rvalue::Aggregate(kind, ops) => {
                let mut o = vec![("k", s("agg"))];
                match &**kind {
                    AggregateKind::Adt(did, vi, args, _, _) => {
                        o.push(("ak", s("adt")));
                        o.push(("id", s(self.canon(*did))));
                        o.push(("variant", i(vi.as_usize())));
                        let adt = tcx.adt_def(*did);
                        o.push(("vname", s(adt.variant(*vi).name.as_str())));
                        self.want_adt(*did);
                        let ga = self.gargs(args.as_slice());
                        o.push(("args", ga));
                    }
                    AggregateKind::Tuple => o.push(("ak", s("tuple"))),
                    AggregateKind::Array(_) => o.push(("ak", s("array"))),
                    AggregateKind::Closure(did, _) => {
                        o.push(("ak", s("closure")));
                        o.push(("id", s(self.canon(*did))));
                    }
                    _ => o.push(("ak", s("other"))),
                }
                let v: Vec<J> = ops.iter().map(|x| self.operand(x, env)).collect();
                o.push(("ops", J::Arr(v)));
                J::obj(o)
            }
            Rvalue::Repeat(op, _) => J::obj(vec![("k", s("repeat")), ("o", self.operand(op, env))]),
            Rvalue::ThreadLocalRef(did) => J::obj(vec![("k", s("tls")), ("id", s(self.canon(*did)))]),
            _ => J::obj(vec![("k", s("other")), ("s", s(format!("{:?}", rv)))]),
        }
    }

    fn body(&mut self, did: LocalDefId, body: &Body<'tcx>, kind: &str) -> J {
        let tcx = self.tcx;
        let def_id = did.to_def_id();
        let env = TypingEnv::post_analysis(tcx, def_id);
        let mut o: Vec<(&'static str, J)> = vec![
            ("id", s(self.canon(def_id))),
            ("name", s(self.pretty(def_id))),
            ("kind", s(kind)),
        ];
        let (f, l0, l1) = self.span(body.span);
        o.push(("file", s(f)));
        o.push(("line", i(l0)));
        o.push(("end_line", i(l1)));
        o.push(("expn", J::Bool(body.span.from_expansion())));
        o.push(("macros", self.macros(body.span)));
        let dk = tcx.def_kind(def_id);
        if matches!(dk, DefKind::Fn | DefKind::AssocFn) {
            let v = tcx.visibility(def_id);
            o.push(("pub", J::Bool(v.is_public())));
            let sig = tcx.fn_sig(def_id).skip_binder();
            o.push(("unsafe_fn", J::Bool(!sig.safety().is_safe())));
        }
        if matches!(dk, DefKind::Closure | DefKind::InlineConst | DefKind::AnonConst) {
            let root = tcx.typeck_root_def_id(def_id);
            o.push(("root", s(self.canon(root))));
            o.push(("parent", s(self.canon(tcx.parent(def_id)))));
        }
        if matches!(dk, DefKind::AssocFn | DefKind::AssocConst { .. }) {
            if let Some(im) = tcx.impl_of_assoc(def_id) {
                let st = tcx.type_of(im).instantiate_identity().skip_norm_wip();
                let mut io = vec![("id", s(self.canon(im))), ("self", i(self.ty(st)))];
                if let Some(tr) = tcx.impl_opt_trait_ref(im) {
                    let tr = tr.instantiate_identity().skip_norm_wip();
                    self.want_trait(tr.def_id);
                    io.push(("trait", s(self.canon(tr.def_id))));
                    let ta = self.gargs(tr.args.as_slice());
                    io.push(("trait_args", ta));
                }
                o.push(("impl", J::obj(io)));
            }
            if let Some(tr) = tcx.trait_of_assoc(def_id) {
                self.want_trait(tr);
                o.push(("trait_default_of", s(self.canon(tr))));
            }
            o.push(("item_name", s(tcx.item_name(def_id).as_str())));
        }
        if matches!(dk, DefKind::Static { .. }) {
            o.push(("static_mut", J::Bool(tcx.is_mutable_static(def_id))));
            o.push(("thread_local", J::Bool(tcx.is_thread_local_static(def_id))));
        }
        if matches!(dk, DefKind::Static { .. } | DefKind::Const { .. } | DefKind::AssocConst { .. }) {
            let t = tcx.type_of(def_id).instantiate_identity().skip_norm_wip();
            o.push(("item_ty", i(self.ty(t))));
        }
        o.push(("argc", i(body.arg_count)));
        let locals: Vec<J> = body.local_decls.iter().map(|d| i(self.ty(d.ty))).collect();
        o.push(("locals", J::Arr(locals)));
        let mut names = vec![];
        for vdi in &body.var_debug_info {
            if let VarDebugInfoContents::Place(p) = &vdi.value {
                let pl = self.place(p);
                names.push(J::Arr(vec![s(vdi.name.as_str()), pl]));
            }
        }
        o.push(("names", J::Arr(names)));
        let mut blocks = vec![];
        for (_bb, data) in body.basic_blocks.iter_enumerated() {
            let mut stmts = vec![];
            for st in &data.statements {
                match &st.kind {
                    StatementKind::Assign(b) => {
                        let (p, rv) = &**b;
                        let pl = self.place(p);
                        let r = self.rvalue(rv, body, env);
                        stmts.push(J::Arr(vec![s("a"), pl, r, i(self.line(st.source_info.span))]));
                    }
                    StatementKind::StorageLive(l) => stmts.push(J::Arr(vec![s("sl"), i(l.as_usize())])),
                    StatementKind::StorageDead(l) => stmts.push(J::Arr(vec![s("sd"), i(l.as_usize())])),
                    StatementKind::SetDiscriminant { place, variant_index } => {
                        let pl = self.place(place);
                        stmts.push(J::Arr(vec![s("sdisc"), pl, i(variant_index.as_usize())]));
                    }
                    _ => {}
                }
            }
            let term = data.terminator();
            let sp = term.source_info.span;
            let mut t: Vec<(&'static str, J)> = vec![];
            match &term.kind {
                TerminatorKind::Goto { target } => {
                    t.push(("k", s("goto")));
                    t.push(("t", i(target.as_usize())));
                }
                TerminatorKind::SwitchInt { discr, targets } => {
                    t.push(("k", s("switch")));
                    t.push(("o", self.operand(discr, env)));
                    let v: Vec<J> = targets
                        .iter()
                        .map(|(val, bb)| J::Arr(vec![J::Int(val as i128), i(bb.as_usize())]))
                        .collect();
                    t.push(("t", J::Arr(v)));
                    t.push(("else", i(targets.otherwise().as_usize())));
                    let dt = discr.ty(&body.local_decls, tcx);
                    t.push(("ty", i(self.ty(dt))));
                }
                TerminatorKind::Return => t.push(("k", s("return"))),
                TerminatorKind::Unreachable => t.push(("k", s("unreachable"))),
                TerminatorKind::UnwindResume => t.push(("k", s("resume"))),
                TerminatorKind::UnwindTerminate(_) => t.push(("k", s("abort"))),
                TerminatorKind::Drop { place, target, .. } => {
                    t.push(("k", s("drop")));
                    t.push(("p", self.place(place)));
                    t.push(("t", i(target.as_usize())));
                }
                TerminatorKind::Call { func, args, destination, target, .. } => {
                    t.push(("k", s("call")));
                    let mut done = false;
                    if let Operand::Constant(c) = func {
                        if let ty::FnDef(fd, fa) = c.const_.ty().kind() {
                            t.push(("f", self.fnref(*fd, fa, env)));
                            done = true;
                        }
                    }
                    if !done {
                        let fty = func.ty(&body.local_decls, tcx);
                        t.push(("fp", self.operand(func, env)));
                        t.push(("fp_ty", i(self.ty(fty))));
                    }
                    let v: Vec<J> = args.iter().map(|a| self.operand(&a.node, env)).collect();
                    t.push(("args", J::Arr(v)));
                    t.push(("d", self.place(destination)));
                    t.push(("t", match target {
                        Some(b) => i(b.as_usize()),
                        None => J::Null,
                    }));
                }
                TerminatorKind::TailCall { func, args, .. } => {
                    t.push(("k", s("tailcall")));
                    t.push(("fp", self.operand(func, env)));
                }
                TerminatorKind::Assert { cond, expected, msg, target, .. } => {
                    t.push(("k", s("assert")));
                    t.push(("o", self.operand(cond, env)));
                    t.push(("exp", J::Bool(*expected)));
                    let (mk, ops): (String, Vec<&Operand<'tcx>>) = match &**msg {
                        AssertKind::BoundsCheck { len, index } => ("BoundsCheck".into(), vec![len, index]),
                        AssertKind::Overflow(op, a, b) => (format!("Overflow({:?})", op), vec![a, b]),
                        AssertKind::OverflowNeg(a) => ("OverflowNeg".into(), vec![a]),
                        AssertKind::DivisionByZero(a) => ("DivisionByZero".into(), vec![a]),
                        AssertKind::RemainderByZero(a) => ("RemainderByZero".into(), vec![a]),
                        other => {
                            let d = format!("{:?}", other);
                            (d.split(|c: char| !c.is_alphanumeric()).next().unwrap_or("").to_string(), vec![])
                        }
                    };
                    t.push(("msg", s(mk)));
                    let v: Vec<J> = ops.into_iter().map(|x| self.operand(x, env)).collect();
                    t.push(("ops", J::Arr(v)));
                    t.push(("t", i(target.as_usize())));
                }
                TerminatorKind::FalseEdge { real_target, .. } => {
                    t.push(("k", s("goto")));
                    t.push(("t", i(real_target.as_usize())));
                }
                TerminatorKind::FalseUnwind { real_target, .. } => {
                    t.push(("k", s("goto")));
                    t.push(("t", i(real_target.as_usize())));
                }
                other => {
                    t.push(("k", s("other")));
                    t.push(("s", s(format!("{:?}", other))));
                }
            }
            t.push(("line", i(self.line(sp))));
            if sp.from_expansion() {
                t.push(("macros", self.macros(sp)));
            }
            blocks.push(J::obj(vec![("s", J::Arr(stmts)), ("t", J::obj(t))]));
        }
        o.push(("blocks", J::Arr(blocks)));
        J::obj(o)
    }
}

struct UnsafeFinder<'a> {
    out: &'a mut Vec<Span>,
}
impl<'a, 'v> rustc_hir::intravisit::Visitor<'v> for UnsafeFinder<'a> {
    fn visit_block(&mut self, b: &'v rustc_hir::Block<'v>) {
        if let rustc_hir::BlockCheckMode::UnsafeBlock(rustc_hir::UnsafeSource::UserProvided) = b.rules {
            self.out.push(b.span);
        }
        rustc_hir::intravisit::walk_block(self, b);
    }
}

fn dump<'tcx>(tcx: TyCtxt<'tcx>, out_dir: &str, fmts: Vec<J>) {
    let mut cx = Cx {
        tcx,
        tys: vec![],
        ty_map: HashMap::new(),
        adt_seen: HashSet::new(),
        adt_queue: VecDeque::new(),
        trait_seen: HashSet::new(),
        trait_queue: VecDeque::new(),
    };
    let krate = tcx.crate_name(rustc_hir::def_id::LOCAL_CRATE).to_string();
    let mut fns = vec![];
    let mut unsafe_blocks: Vec<J> = vec![];
    let mut seen_unsafe: HashSet<Span> = HashSet::new();
    for did in tcx.hir_body_owners() {
        let def_id = did.to_def_id();
        let dk = tcx.def_kind(def_id);
        // unsafe blocks (HIR)
        {
            let mut spans = vec![];
            let body = tcx.hir_body_owned_by(did);
            let mut f = UnsafeFinder { out: &mut spans };
            rustc_hir::intravisit::Visitor::visit_expr(&mut f, body.value);
            for sp in spans {
                if seen_unsafe.insert(sp) {
                    let (f, l0, _) = cx.span(sp);
                    unsafe_blocks.push(J::obj(vec![
                        ("fn", s(cx.canon(def_id))),
                        ("file", s(f)),
                        ("line", i(l0)),
                        ("expn", J::Bool(sp.from_expansion())),
                        ("macros", cx.macros(sp)),
                    ]));
                }
            }
        }
        match dk {
            DefKind::Fn | DefKind::AssocFn | DefKind::Closure => {
                if tcx.is_constructor(def_id) {
                    continue;
                }
                // coroutines etc. are not used by the workspace
                let kind = match dk {
                    DefKind::Fn => "fn",
                    DefKind::AssocFn => "method",
                    _ => "closure",
                };
                let body = tcx.optimized_mir(def_id);
                fns.push(cx.body(did, body, kind));
                // promoted constants (e.g. `&["lt;", ..]` tables) are separate bodies
                let proms = tcx.promoted_mir(def_id);
                for (pi, pb) in proms.iter_enumerated() {
                    let mut j = cx.body(did, pb, "promoted");
                    if let J::Obj(ref mut v) = j {
                        for (k, val) in v.iter_mut() {
                            if *k == "id" {
                                if let J::Str(s0) = val {
                                    *s0 = format!("{}::{{promoted#{}}}", s0, pi.as_usize());
                                }
                            }
                        }
                        v.push(("promoted_of", s(cx.canon(def_id))));
                    }
                    fns.push(j);
                }
            }
            DefKind::Const { .. } | DefKind::AssocConst { .. } | DefKind::Static { .. } => {
                let kind = if matches!(dk, DefKind::Static { .. }) { "static" } else { "const" };
                let body = tcx.mir_for_ctfe(def_id);
                fns.push(cx.body(did, body, kind));
                let proms = tcx.promoted_mir(def_id);
                for (pi, pb) in proms.iter_enumerated() {
                    let mut j = cx.body(did, pb, "promoted");
                    if let J::Obj(ref mut v) = j {
                        for (k, val) in v.iter_mut() {
                            if *k == "id" {
                                if let J::Str(s0) = val {
                                    *s0 = format!("{}::{{promoted#{}}}", s0, pi.as_usize());
                                }
                            }
                        }
                        v.push(("promoted_of", s(cx.canon(def_id))));
                    }
                    fns.push(j);
                }
            }
            _ => {}
        }
    }
    // impls
    let mut impls = vec![];
    for did in tcx.hir_crate_items(()).definitions() {
        let def_id = did.to_def_id();
        if let DefKind::Impl { of_trait } = tcx.def_kind(def_id) {
            let st = tcx.type_of(def_id).instantiate_identity().skip_norm_wip();
            let mut o = vec![("id", s(cx.canon(def_id))), ("self", i(cx.ty(st)))];
            let (f, l0, _) = cx.span(tcx.def_span(def_id));
            o.push(("file", s(f)));
            o.push(("line", i(l0)));
            o.push(("expn", J::Bool(tcx.def_span(def_id).from_expansion())));
            if of_trait {
                if let Some(tr) = tcx.impl_opt_trait_ref(def_id) {
                    let tr = tr.instantiate_identity().skip_norm_wip();
                    cx.want_trait(tr.def_id);
                    o.push(("trait", s(cx.canon(tr.def_id))));
                    let ta = cx.gargs(tr.args.as_slice());
                    o.push(("trait_args", ta));
                }
                let hdr = tcx.impl_trait_header(def_id);
                o.push(("unsafe_impl", J::Bool(!hdr.safety.is_safe())));
                o.push(("negative", J::Bool(matches!(hdr.polarity, ty::ImplPolarity::Negative))));
            }
            let mut items = vec![];
            for it in tcx.associated_items(def_id).in_definition_order() {
                let mut io = vec![
                    ("name", s(it.name().as_str())),
                    ("id", s(cx.canon(it.def_id))),
                    ("is_fn", J::Bool(it.is_fn())),
                ];
                items.push(J::obj(io));
            }
            o.push(("items", J::Arr(items)));
            // where-clauses / bounds as strings (diagnostic only)
            let preds = tcx.predicates_of(def_id);
            let ps: Vec<J> = preds
                .predicates
                .iter()
                .map(|(p, _)| s(with_no_trimmed_paths!(format!("{}", p))))
                .collect();
            o.push(("preds", J::Arr(ps)));
            impls.push(J::obj(o));
        }
    }
    // local traits are always wanted
    for did in tcx.hir_crate_items(()).definitions() {
        if matches!(tcx.def_kind(did.to_def_id()), DefKind::Trait) {
            cx.want_trait(did.to_def_id());
        }
        if matches!(tcx.def_kind(did.to_def_id()), DefKind::Struct | DefKind::Enum | DefKind::Union) {
            cx.want_adt(did.to_def_id());
        }
    }
    // traits
    let mut traits = vec![];
    while let Some(tr) = cx.trait_queue.pop_front() {
        let mut ms = vec![];
        for it in tcx.associated_items(tr).in_definition_order() {
            if it.is_fn() {
                ms.push(J::obj(vec![
                    ("name", s(it.name().as_str())),
                    ("id", s(cx.canon(it.def_id))),
                    ("has_default", J::Bool(it.defaultness(tcx).has_value())),
                ]));
            }
        }
        let supers: Vec<J> = tcx
            .explicit_super_predicates_of(tr)
            .iter_identity_copied()
            .filter_map(|u| { let (p, _) = u.skip_norm_wip(); p.as_trait_clause().map(|c| s(cx.canon(c.def_id()))) })
            .collect();
        traits.push(J::obj(vec![
            ("id", s(cx.canon(tr))),
            ("name", s(cx.pretty(tr))),
            ("local", J::Bool(tr.is_local())),
            ("methods", J::Arr(ms)),
            ("supers", J::Arr(supers)),
        ]));
    }
    // adts (transitive over field types)
    let mut adts = vec![];
    while let Some(ad) = cx.adt_queue.pop_front() {
        let adt = tcx.adt_def(ad);
        let kind = if adt.is_enum() {
            "enum"
        } else if adt.is_union() {
            "union"
        } else {
            "struct"
        };
        let gens = tcx.generics_of(ad);
        let mut gnames = vec![];
        for k in 0..gens.count() {
            let p = gens.param_at(k, tcx);
            gnames.push(J::obj(vec![
                ("name", s(p.name.as_str())),
                ("kind", s(match p.kind {
                    ty::GenericParamDefKind::Lifetime => "lt",
                    ty::GenericParamDefKind::Type { .. } => "ty",
                    ty::GenericParamDefKind::Const { .. } => "const",
                })),
            ]));
        }
        let mut vars = vec![];
        for v in adt.variants() {
            let mut fs = vec![];
            for f in &v.fields {
                let ft = tcx.type_of(f.did).instantiate_identity().skip_norm_wip();
                fs.push(J::obj(vec![("name", s(f.name.as_str())), ("ty", i(cx.ty(ft)))]));
            }
            vars.push(J::obj(vec![("name", s(v.name.as_str())), ("fields", J::Arr(fs))]));
        }
        let mut o = vec![
            ("id", s(cx.canon(ad))),
            ("name", s(cx.pretty(ad))),
            ("kind", s(kind)),
            ("local", J::Bool(ad.is_local())),
            ("krate", s(tcx.crate_name(ad.krate).as_str())),
            ("generics", J::Arr(gnames)),
            ("variants", J::Arr(vars)),
        ];
        if tcx.is_lang_item(ad, rustc_hir::LangItem::UnsafeCell) {
            o.push(("unsafe_cell", J::Bool(true)));
        }
        if adt.is_phantom_data() {
            o.push(("phantom", J::Bool(true)));
        }
        adts.push(J::obj(o));
    }
    // auto traits of every closed (parameter-free) type seen: decided by rustc's trait solver
    let mut autos = vec![];
    {
        use rustc_infer::infer::TyCtxtInferExt;
        use rustc_trait_selection::infer::InferCtxtExt;
        let send = tcx.get_diagnostic_item(rustc_span::sym::Send);
        let sync = tcx.lang_items().sync_trait();
        let env = TypingEnv::fully_monomorphized();
        let infcx = tcx.infer_ctxt().build(ty::TypingMode::PostAnalysis);
        let list: Vec<(Ty<'tcx>, usize)> = cx.ty_map.iter().map(|(t, k)| (*t, *k)).collect();
        for (t, k) in list {
            if t.has_non_region_param() || t.has_aliases() || t.has_escaping_bound_vars() || t.has_infer() || t.references_error() {
                continue;
            }
            if !matches!(t.kind(), ty::Adt(..) | ty::Dynamic(..) | ty::Ref(..) | ty::Tuple(..)) {
                continue;
            }
            let t = tcx.erase_and_anonymize_regions(t);
            let mut o = vec![("ty", i(k))];
            let r = std::panic::catch_unwind(std::panic::AssertUnwindSafe(|| {
                let mut v = vec![];
                if let Some(sd) = send {
                    v.push(infcx.type_implements_trait(sd, [t], env.param_env).must_apply_modulo_regions());
                }
                if let Some(sd) = sync {
                    v.push(infcx.type_implements_trait(sd, [t], env.param_env).must_apply_modulo_regions());
                }
                v.push(t.is_freeze(tcx, env));
                v
            }));
            if let Ok(v) = r {
                if v.len() == 3 {
                    o.push(("send", J::Bool(v[0])));
                    o.push(("sync", J::Bool(v[1])));
                    o.push(("freeze", J::Bool(v[2])));
                    autos.push(J::obj(o));
                }
            }
        }
    }
    let root = J::obj(vec![
        ("autos", J::Arr(autos)),
        ("crate", s(krate.clone())),
        ("crate_types", s(format!("{:?}", tcx.crate_types()))),
        ("fmts", J::Arr(fmts)),
        ("fns", J::Arr(fns)),
        ("impls", J::Arr(impls)),
        ("traits", J::Arr(traits)),
        ("adts", J::Arr(adts)),
        ("unsafe_blocks", J::Arr(unsafe_blocks)),
        ("types", J::Arr(std::mem::take(&mut cx.tys))),
    ]);
    let mut buf = String::new();
    root.write(&mut buf);
    let id = tcx.stable_crate_id(rustc_hir::def_id::LOCAL_CRATE).as_u64();
    let path = format!("{}/{}-{:016x}.json", out_dir, krate, id);
    let tmp = format!("{}.tmp{}", path, std::process::id());
    std::fs::write(&tmp, buf).expect("write facts");
    std::fs::rename(&tmp, &path).expect("rename facts");
}

// ---- format_args! facts, read off the expanded AST (the HIR/MIR form is an opaque byte template) ----
struct FmtV<'a> {
    sm: &'a rustc_span::source_map::SourceMap,
    out: Vec<J>,
}

fn fmt_count(c: &Option<rustc_ast::FormatCount>) -> J {
    match c {
        None => J::Null,
        Some(rustc_ast::FormatCount::Literal(n)) => J::obj(vec![("lit", i(*n as usize))]),
        Some(rustc_ast::FormatCount::Argument(p)) => J::obj(vec![(
            "arg",
            match p.index {
                Ok(k) => i(k),
                Err(_) => J::Null,
            },
        )]),
    }
}

impl<'a, 'ast> rustc_ast::visit::Visitor<'ast> for FmtV<'a> {
    fn visit_expr(&mut self, e: &'ast rustc_ast::Expr) {
        if let rustc_ast::ExprKind::FormatArgs(fa) = &e.kind {
            let mut pieces = vec![];
            for p in &fa.template {
                match p {
                    rustc_ast::FormatArgsPiece::Literal(sym) => pieces.push(J::obj(vec![("lit", s(sym.as_str()))])),
                    rustc_ast::FormatArgsPiece::Placeholder(ph) => {
                        let o = &ph.format_options;
                        pieces.push(J::obj(vec![
                            ("arg", match ph.argument.index { Ok(k) => i(k), Err(_) => J::Null }),
                            ("trait", s(format!("{:?}", ph.format_trait))),
                            ("fill", match o.fill { Some(c) => s(c.to_string()), None => J::Null }),
                            ("align", match o.alignment { Some(a) => s(format!("{:?}", a)), None => J::Null }),
                            ("width", fmt_count(&o.width)),
                            ("precision", fmt_count(&o.precision)),
                            ("sign", match o.sign { Some(x) => s(format!("{:?}", x)), None => J::Null }),
                            ("alternate", J::Bool(o.alternate)),
                            ("zero_pad", J::Bool(o.zero_pad)),
                        ]));
                    }
                }
            }
            let cs = fa.span.source_callsite();
            let lo = self.sm.lookup_char_pos(cs.lo());
            let hi = self.sm.lookup_char_pos(cs.hi());
            let own = self.sm.lookup_char_pos(fa.span.lo());
            self.out.push(J::obj(vec![
                ("file", s(format!("{}", lo.file.name.prefer_local_unconditionally()))),
                ("line", i(lo.line)),
                ("end_line", i(hi.line)),
                ("tpl_line", i(own.line)),
                ("nargs", i(fa.arguments.all_args().len())),
                ("pieces", J::Arr(pieces)),
            ]));
        }
        rustc_ast::visit::walk_expr(self, e);
    }
}

struct Cb {
    out: Option<String>,
    fmts: Vec<J>,
}
impl rustc_driver::Callbacks for Cb {
    fn after_expansion<'tcx>(
        &mut self,
        _c: &rustc_interface::interface::Compiler,
        tcx: TyCtxt<'tcx>,
    ) -> rustc_driver::Compilation {
        if self.out.is_some() {
            let guard = tcx.resolver_for_lowering().borrow();
            let krate = &guard.1;
            let mut v = FmtV { sm: tcx.sess.source_map(), out: vec![] };
            rustc_ast::visit::walk_crate(&mut v, krate);
            self.fmts = v.out;
        }
        rustc_driver::Compilation::Continue
    }

    fn after_analysis<'tcx>(
        &mut self,
        _c: &rustc_interface::interface::Compiler,
        tcx: TyCtxt<'tcx>,
    ) -> rustc_driver::Compilation {
        if let Some(o) = &self.out {
            dump(tcx, o, std::mem::take(&mut self.fmts));
        }
        rustc_driver::Compilation::Continue
    }
}

fn main() {
    // invoked as: lrfacts <path-to-rustc> <rustc args...>
    let mut args: Vec<String> = std::env::args().collect();
    if args.len() >= 2 {
        args.remove(1);
    }
    args[0] = "rustc".to_string();
    let out = std::env::var("LRFACTS_OUT").ok();
    // only dump primary (workspace) packages; CARGO_PRIMARY_PACKAGE is set for them
    let mut cb = Cb { out, fmts: vec![] };
    rustc_driver::run_compiler(&args, &mut cb);
}
