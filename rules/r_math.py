"""C15 structural rules for the arithmetic filters: integer path before float path, one exact
integer operation per filter, divided_by/modulo use the same (truncating) convention."""
from mirutil import op_local
from origins import SelfOrigins

MATH = "liquid_lib::stdlib::filters::math::"
FILTER = "liquid_core::parser::filter::Filter"

# filter struct -> (arity, allowed integer operations (callee last names or MIR binops))
SPEC = {
    "AbsFilter": (1, {"checked_abs", "wrapping_abs", "saturating_abs", "unsigned_abs"}),
    "AtLeastFilter": (2, {"max"}),
    "AtMostFilter": (2, {"min"}),
    "PlusFilter": (2, {"checked_add", "saturating_add"}),
    "MinusFilter": (2, {"checked_sub", "saturating_sub"}),
    "TimesFilter": (2, {"checked_mul", "saturating_mul"}),
    "DividedByFilter": (2, {"checked_div"}),  # wrapping_div would return MIN for MIN / -1
    "ModuloFilter": (2, {"checked_rem", "wrapping_rem"}),
}
INT_NOISE = {"to_integer", "to_float", "map", "and_then", "or_else", "ok_or_else", "scalar", "into", "from", "branch", "from_residual",
             "as_scalar", "evaluate", "clone", "deref", "invalid_input", "invalid_argument", "as_ref", "new", "new_const", "to_string",
             "format", "must_use", "new_display", "call_once", "call", "call_mut"}


def int_path_ops(P, fn, depth=2, seen=None):
    """Operations applied to i64 values in a body and the workspace helpers it calls (inlined)."""
    seen = seen or set()
    if fn.id in seen:
        return set()
    seen = seen | {fn.id}
    ops = set()
    for b in fn.blocks:
        for st in b["s"]:
            if st[0] == "a" and st[2]["k"] == "bin" and st[2]["op"] not in ("Eq", "Ne", "Lt", "Le", "Gt", "Ge"):
                ol = op_local(st[2]["a"])
                ty = P.local_ty(fn, ol[0]) if ol else P.tstr(fn.crate, st[2]["a"][1]["ty"]) if st[2]["a"][0] == "k" else ""
                if ty in ("i64", "i128", "u64", "isize", "usize", "(i64, bool)"):
                    ops.add("binop:" + st[2]["op"].replace("WithOverflow", ""))
            elif st[0] == "a" and st[2]["k"] == "cast" and st[2]["ck"] in ("FloatToInt", "IntToFloat"):
                frm = P.tstr(fn.crate, st[2]["from"])
                to = P.tstr(fn.crate, st[2]["to"])
                if "i64" in (frm, to):
                    ops.add("cast:%s->%s" % (frm, to))
        t = b["t"]
        if t["k"] == "call" and t.get("f"):
            f = t["f"]
            last = f["id"].rsplit("::", 1)[1]
            st_ = P.tstr(fn.crate, f["self_ty"]) if "self_ty" in f else ""
            if f["name"].startswith("core::num::<impl i64>") or (f["id"] in ("core::cmp::Ord::max", "core::cmp::Ord::min") and st_ == "i64"):
                ops.add(last)
            elif f["krate"].startswith("liquid") and not f.get("trait") and depth > 0:
                for tg in P.callee_targets(t):
                    g = P.fns.get(tg)
                    if g is not None and g.id.startswith(MATH):
                        ops |= int_path_ops(P, g, depth - 1, seen)
    return ops


def run(P, rep, rule="R-MATH"):
    found = 0
    for name, (arity, allowed) in sorted(SPEC.items()):
        key = "<%s%s as %s>::evaluate" % (MATH, name, FILTER)
        fns = P.by_key(key)
        if len(fns) != 1:
            rep.anchor_missing(rule, key)
            continue
        root = fns[0]
        found += 1
        bodies = [b for b, _ in SelfOrigins(P, root, seed={}).all_bodies()]
        n_int = n_float = 0
        float_in_fallback = True
        int_ops = set()
        for fn in bodies:
            has_int = any(t.get("f") and t["f"]["id"].endswith("::to_integer") for bi, t in P.calls(fn))
            for bi, t in P.calls(fn):
                f = t.get("f")
                if not f:
                    continue
                last = f["id"].rsplit("::", 1)[1]
                if last == "to_integer":
                    n_int += 1
                elif last == "to_float":
                    n_float += 1
                    # the float conversion must live in a fallback closure (or_else), not next to the integer path
                    if fn is root:
                        float_in_fallback = False
        # integer ops: closures that (transitively) follow a to_integer call; approximate by all closures that
        # take an i64 parameter or call to_integer
        for fn in bodies:
            if fn is root:
                continue
            if any(P.local_ty(fn, l) == "i64" for l in range(1, fn.argc + 1)):
                int_ops |= int_path_ops(P, fn)
        site = name.replace("Filter", "").lower()
        where = P.where(root)
        probs = []
        if n_int < arity:
            probs.append("integer path missing: to_integer is applied to %d of %d operands, so large integers go through f64 and lose exactness" % (n_int, arity))
        real_ops = {o for o in int_ops if not o.startswith("cast:")}
        extra = real_ops - allowed
        if n_int >= arity and not (real_ops & allowed):
            probs.append("integer path performs %s; expected one of %s" % (sorted(real_ops) or "no integer operation", sorted(allowed)))
        elif extra:
            probs.append("integer path performs additional operations %s besides %s: the result is no longer the single exact %s"
                         % (sorted(extra), sorted(real_ops & allowed), site))
        casts = {o for o in int_ops if o.startswith("cast:")}
        if casts:
            probs.append("integer path converts through floating point (%s)" % sorted(casts))
        if probs:
            for p in probs:
                rep.viol(rule, site, where, p)
        else:
            rep.ok(rule, site, where, "integer path first (to_integer x%d), exact op %s, float path only as fallback" % (n_int, sorted(real_ops & allowed)))
    rep.analysed[rule + ".filters"] = found


# ---------------------------------------------------------------------------------------
# R-COERCE: string operands become numbers by str::parse alone

def run_coerce(P, rep, rule="R-COERCE"):
    """ScalarCow::to_integer / to_float: in the arm for a string scalar the answer is `x.parse::<i64|f64>().ok()` — one parse call,
    its `.ok()`, and no other condition (no length/prefix pre-check that could make a numeric string a non-number for the integer path
    while the float path still accepts it)."""
    from pathsel import discr_switches, arm_region
    from origins import SelfOrigins
    adt = P.adts.get("liquid_core::model::scalar::ScalarCowEnum")
    if not adt:
        rep.anchor_missing(rule, "ScalarCowEnum")
        return
    names = [v["name"] for v in adt["variants"]]
    if "Str" not in names:
        rep.anchor_missing(rule, "ScalarCowEnum::Str")
        return
    vi = names.index("Str")
    for meth, ty in (("to_integer", "i64"), ("to_float", "f64")):
        fns = P.by_key("<liquid_core::model::scalar::ScalarCow>::" + meth)
        site = "ScalarCow::" + meth + " Str arm"
        if len(fns) != 1:
            rep.anchor_missing(rule, "ScalarCow::" + meth)
            continue
        fn = fns[0]
        so = SelfOrigins(P, fn)
        sw = discr_switches(P, fn, lambda pl: so.place_origin(pl) is not None)
        if not sw:
            rep.viol(rule, site, P.where(fn), "no match on the scalar's kind found")
            continue
        regs = [arm_region(P, fn, v, sw) for v in range(len(names))]
        common = set(regs[0])
        for r in regs[1:]:
            common &= r
        reg = regs[vi] - common
        calls = [fn.blocks[b]["t"] for b in sorted(reg) if fn.blocks[b]["t"]["k"] == "call" and fn.blocks[b]["t"].get("f")]
        parses = [t for t in calls if t["f"]["id"] == "core::str::parse" or t["f"]["name"].endswith("str::parse") or t["f"]["id"].endswith("::parse")]
        branches = [b for b in reg if fn.blocks[b]["t"]["k"] == "switch" and b not in sw]
        others = [t["f"]["name"] for t in calls if t not in parses and t["f"]["id"].rsplit("::", 1)[1] not in ("ok", "deref", "as_str", "as_ref", "borrow")]
        def _okty(t_):
            targs = [P.tstr(fn.crate, a) for a in t_["f"].get("args", []) if isinstance(a, int)]
            # the expected number type, or a type parameter of a private generic helper expanded in place (`parse_str::<T>`)
            return any(x == ty or (len(x) <= 2 and x[:1].isupper()) for x in targs)
        okty = any(_okty(t) for t in parses)
        if len(parses) != 1 or not okty:
            rep.viol(rule, site, P.where(fn), "expected exactly one str::parse::<%s> in the string arm, found %d" % (ty, len(parses)))
        elif branches:
            rep.viol(rule, site + " condition", P.where(fn, fn.blocks[branches[0]]["t"].get("line")),
                     "the string arm decides on something besides the parse result: a numeric string can be refused as %s" % ("an integer" if ty == "i64" else "a float"))
        elif others:
            rep.viol(rule, site + " via " + others[0].rsplit("::", 1)[-1], P.where(fn), "the string passes through `%s` around the parse" % others[0])
        else:
            rep.ok(rule, site, P.where(fn), "x.parse::<%s>().ok(), no other condition" % ty)


# ---------------------------------------------------------------------------------------
# R-MATH.round: ceil/floor/round convert with a plain saturating cast, not behind a magnitude test

def run_round_cast(P, rep, rule="R-MATH.round"):
    """CeilFilter / FloorFilter / RoundFilter::evaluate (private helpers expanded): the rounded f64 becomes the result through an
    `as i64` cast; no ordering comparison between floats (a hand-written range test such as `n.abs() < 2^63` is off by one at
    -2^63) and no error exit other than the input-conversion one guards that cast."""
    import inline
    for ty in ("CeilFilter", "FloorFilter", "RoundFilter"):
        fn = P.fn_by_key("<liquid_lib::stdlib::filters::math::%s as liquid_core::parser::filter::Filter>::evaluate" % ty)
        hs = inline.helpers_of(P, [fn], depth=2)
        hs = {h for h in hs if P.fns[h].file == fn.file and "invalid_" not in h}
        view = fn
        if hs:
            v2, n2 = inline.inlined(P, fn, frozenset(hs))
            if n2:
                view = v2
        site = ty.replace("Filter", "").lower()
        casts = [st for b in view.blocks for st in b["s"] if st[0] == "a" and st[2]["k"] == "cast" and st[2]["ck"] == "FloatToInt"]
        fcmp = []
        for b in view.blocks:
            for st in b["s"]:
                if st[0] == "a" and st[2]["k"] == "bin" and st[2]["op"] in ("Lt", "Le", "Gt", "Ge"):
                    for k in ("a", "b"):
                        ol = op_local(st[2][k])
                        if ol and P.local_ty(view, ol[0]) in ("f64", "f32"):
                            fcmp.append(st[3] if len(st) > 3 else view.line)
                        elif st[2][k][0] == "k" and isinstance(st[2][k][1], dict) and "f64" in str(P.tstr(view.crate, st[2][k][1]["ty"])) if isinstance(st[2][k][1].get("ty"), int) else False:
                            fcmp.append(st[3] if len(st) > 3 else view.line)
        if not casts:
            rep.viol(rule, site, P.where(fn), "no `as i64` conversion of the rounded value found (the float-to-integer step changed shape)")
        elif fcmp:
            rep.viol(rule, site + " float-compare", P.where(fn, fcmp[0]),
                     "the float-to-integer conversion of `%s` is guarded by a float ordering comparison: a hand-written range test rejects or alters boundary values "
                     "(-2^63 is inside the 64-bit range)" % site)
        else:
            rep.ok(rule, site, P.where(fn), "rounded value converted by a plain `as i64`; no float range test")


# ---------------------------------------------------------------------------------------
# R-MATH.float: the float path is the single IEEE operation

FLOAT_SPEC = {"PlusFilter": "Add", "MinusFilter": "Sub", "TimesFilter": "Mul", "DividedByFilter": "Div", "ModuloFilter": "Rem"}
FLOAT_NOISE = INT_NOISE | {"to_value", "max", "min"}


def _float_ops(P, fn, depth=2, seen=None):
    seen = seen or set()
    if fn.id in seen:
        return set(), []
    seen = seen | {fn.id}
    ops, calls = set(), []
    for b in fn.blocks:
        for st in b["s"]:
            if st[0] == "a" and st[2]["k"] == "bin" and st[2]["op"] in ("Add", "Sub", "Mul", "Div", "Rem"):
                ol = op_local(st[2]["a"])
                ty = P.local_ty(fn, ol[0]) if ol else (P.tstr(fn.crate, st[2]["a"][1]["ty"]) if st[2]["a"][0] == "k" and isinstance(st[2]["a"][1].get("ty"), int) else "")
                if ty == "f64":
                    ops.add(st[2]["op"])
        t = b["t"]
        if t["k"] == "call" and t.get("f"):
            f = t["f"]
            last = f["id"].rsplit("::", 1)[1]
            if f["krate"].startswith("liquid") and not f.get("trait") and depth > 0 and f["id"].startswith(MATH):
                g = P.fns.get(f["id"])
                if g is not None:
                    o2, c2 = _float_ops(P, g, depth - 1, seen)
                    ops |= o2
                    calls += c2
                    continue
            if last not in FLOAT_NOISE:
                calls.append(f["name"])
    return ops, calls


def run_float_path(P, rep, rule="R-MATH.float"):
    """plus / minus / times / divided_by / modulo on a float operand: the closure that receives the two f64 values performs exactly the
    one IEEE operation (`+ - * / %` on f64) and nothing else — no rounding, formatting/parsing detour or second operation."""
    for name, op in sorted(FLOAT_SPEC.items()):
        root = P.fn_by_key("<%s%s as %s>::evaluate" % (MATH, name, FILTER))
        site = name.replace("Filter", "").lower()
        found = False
        probs = []
        for fn, _ in SelfOrigins(P, root, seed={}).all_bodies():
            if fn is root or not any(P.local_ty(fn, l) == "f64" for l in range(1, fn.argc + 1)):
                continue
            ops, calls = _float_ops(P, fn)
            if not ops and not calls:
                continue
            found = True
            if op not in ops:
                probs.append("the float path does not perform the f64 `%s` itself (operations %s, calls %s)" % (op, sorted(ops), sorted(set(calls))[:3]))
            elif ops - {op}:
                probs.append("the float path performs %s besides `%s`" % (sorted(ops - {op}), op))
            elif calls:
                probs.append("the float path calls %s around the f64 `%s`: the result is no longer the plain IEEE result" % (sorted(set(calls))[:3], op))
        if not found:
            rep.viol(rule, site, P.where(root), "no closure operating on the two f64 operands was found (float path changed shape): not decided")
        elif probs:
            for p_ in sorted(set(probs)):
                rep.viol(rule, site, P.where(root), p_)
        else:
            rep.ok(rule, site, P.where(root), "float path = one f64 `%s`" % op)


# ---------------------------------------------------------------------------------------
# R-MATH.zerotest: "Can't divide by zero" is decided on the divisor

def run_zero_test_operand(P, rep, rule="R-MATH.zerotest"):
    """divided_by / modulo: every comparison with the constant zero in the filter's body tests a number that derives from
    the filter's *argument* (self.args, evaluated against the runtime), never from the piped input (parameter 2): a guard on the
    dividend rejects `0 | modulo: 2.5` and lets `5 | modulo: 0.0` through.  A zero test that was moved into a private
    one-parameter helper (or a closure) is followed: the value handed to the helper must not derive from the input."""
    from origins import backward_slice
    from mirutil import op_local

    def zero_tests(g):
        out = []
        for b in g.blocks:
            for st in b["s"]:
                if st[0] != "a" or st[2]["k"] != "bin" or st[2]["op"] not in ("Eq", "Ne"):
                    continue
                a, c = st[2]["a"], st[2]["b"]
                zero = lambda o: o[0] == "k" and isinstance(o[1], dict) and (o[1].get("val") == 0 or str(o[1].get("fval", "")).lstrip("+-") in ("0f64", "0.0f64", "0", "0.0"))  # noqa: E731
                other = c if zero(a) else a if zero(c) else None
                ol = op_local(other) if other is not None else None
                if ol and P.local_ty(g, ol[0]).lstrip("&") in ("i64", "f64"):
                    out.append((ol[0], st[3] if len(st) > 3 else None))
        return out

    def closures_of(g):
        return [h for h in P.fns.values() if h.kind == "closure" and (h.parent == g.id or getattr(h, "root", None) == g.id)]

    for nm in ("DividedByFilter", "ModuloFilter"):
        key = "<liquid_lib::stdlib::filters::math::%s as liquid_core::parser::filter::Filter>::evaluate" % nm
        fns = P.by_key(key)
        if len(fns) != 1:
            rep.anchor_missing(rule, key)
            continue
        fn = fns[0]
        n = 0
        bad = None
        for l, line in zero_tests(fn):
            n += 1
            if 2 in backward_slice(fn, l)[0]:
                bad = bad or line
        for h in closures_of(fn):
            n += len(zero_tests(h))
        for bi, t in P.calls(fn):
            f = t.get("f")
            g = P.fns.get(f["id"]) if f else None
            if g is None or g.kind == "closure" or g.pub or g.file != fn.file or g.impl:
                continue
            k = len(zero_tests(g)) + sum(len(zero_tests(h)) for h in closures_of(g))
            if not k:
                continue
            n += k
            for a in t["args"]:
                ol = op_local(a)
                if ol and g.argc == 1 and 2 in backward_slice(fn, ol[0])[0]:
                    bad = bad or t["line"]
        site = nm.replace("Filter", "") + " zero test"
        if bad is not None:
            rep.viol(rule, site, P.where(fn, bad), "the zero test of the division guard reads the piped input, not the argument: a zero dividend is rejected "
                     "and a zero (float) divisor is let through")
        elif n < 1:
            rep.viol(rule, site, P.where(fn), "no zero test on the divisor found (body, closures, private helpers): re-derive")
        else:
            rep.ok(rule, site, P.where(fn), "%d zero tests, none on a value derived from the piped input" % n)
