"""C19 rules: the three partial-compilation policies share one pipeline, never fail at build
time because of a partial's content, key everything by the requested name, and report a
missing/broken partial at use."""
from mirutil import op_local
from origins import SelfOrigins, backward_slice
from r_fwd import Profile, field_names
from r_wprop import Tracker, BRANCH, FROM_RESIDUAL
import r_wprop

STORE = "liquid_core::runtime::partials::PartialStore"
COMPILER = "liquid_core::partials::PartialCompiler"
SOURCE = "liquid_core::partials::PartialSource"
PARSE = "liquid_core::parser::parser::parse"

STORE_SPEC = {
    # adt -> method -> set of (receiver field, callee last name) that must be present
    "liquid_core::partials::lazy::LazyStore": {
        "contains": {("source", "contains")}, "names": {("source", "names")},
        "try_get": {("self", "try_get_or_create")}, "get": {("self", "get_or_create")},
    },
    "liquid_core::partials::ondemand::OnDemandStore": {
        "contains": {("source", "contains")}, "names": {("source", "names")},
        "try_get": {("source", "try_get")}, "get": {("source", "get")},
    },
    "liquid_core::partials::eager::EagerStore": {
        "contains": {("store", "contains_key")}, "names": {("store", "keys")},
        "try_get": {("store", "get")}, "get": {("store", "get")},
    },
    "liquid_core::runtime::runtime::NullPartials": {"contains": set(), "names": set(), "try_get": set(), "get": set()},
}
STORE_FORBID = {
    # the failing lookup must not be built on the optional one (it would turn errors into "missing") and vice versa
    ("liquid_core::partials::ondemand::OnDemandStore", "get"): {("source", "try_get")},
    ("liquid_core::partials::ondemand::OnDemandStore", "try_get"): {("source", "get")},
    ("liquid_core::partials::lazy::LazyStore", "get"): {("self", "try_get_or_create")},
    ("liquid_core::partials::lazy::LazyStore", "try_get"): {("self", "get_or_create")},
}


def adt_of_impl(P, im):
    tj = P.ty(im["crate"], im["self"])
    return tj["id"] if tj["k"] == "adt" else P.impl_self_str(im)


def run_store_matrix(P, rep, rule="R-FWD.partials"):
    impls = {adt_of_impl(P, im): im for im in P.impls_of(STORE) if im["crate"] in ("liquid_core", "liquid", "liquid_lib")}
    for nm in sorted(impls):
        if nm not in STORE_SPEC:
            rep.viol(rule, "unknown-implementor " + nm, "%s:%s" % (impls[nm]["file"], impls[nm]["line"]),
                     "a new PartialStore implementor `%s` is not covered by the policy matrix" % nm)
    for nm, spec in sorted(STORE_SPEC.items()):
        im = impls.get(nm)
        if im is None:
            rep.anchor_missing(rule, "impl PartialStore for " + nm)
            continue
        items = {it["name"]: it["id"] for it in im["items"] if it["is_fn"]}
        for m, need in sorted(spec.items()):
            fn = P.fns.get(items.get(m))
            if fn is None:
                rep.anchor_missing(rule, nm + "::" + m)
                continue
            pr = Profile(P, fn)
            have = {(r, last) for (last, name, r) in pr.callees if r is not None}
            site = "%s::%s" % (nm.rsplit("::", 1)[1], m)
            miss = need - have
            forb = STORE_FORBID.get((nm, m), set()) & have
            if miss:
                rep.viol(rule, site, P.where(fn), "expected delegation %s is absent" % sorted(miss))
            elif forb:
                rep.viol(rule, site, P.where(fn), "delegates to the sibling lookup %s (errors and absence would be conflated)" % sorted(forb))
            else:
                rep.ok(rule, site, P.where(fn), "delegates to %s" % (sorted(need) or "nothing (constant)"))


def run_eager_shape(P, rep, rule="R-TABLE.eager"):
    adt = P.adts.get("liquid_core::partials::eager::EagerStore")
    if adt is None:
        rep.anchor_missing(rule, "EagerStore")
        return
    f = [x for x in adt["variants"][0]["fields"] if x["name"] == "store"]
    if not f:
        rep.anchor_missing(rule, "EagerStore.store")
        return
    ty = P.tstr(adt["crate"], f[0]["ty"])
    want_prefix = "std::collections::hash::map::HashMap<alloc::string::String, core::result::Result<alloc::sync::Arc<dyn liquid_core::runtime::renderable::Renderable>, liquid_core::error::error::Error>"
    if ty.startswith(want_prefix):
        rep.ok(rule, "EagerStore.store type", "-", "one stored Result per partial name: a broken partial cannot affect another name")
    else:
        rep.viol(rule, "EagerStore.store type", "-", "eager store is %s; the deferred-error rule needs a per-name Result (HashMap<String, Result<Arc<dyn Renderable>>>)" % ty)


def run_eager_all_names(P, rep, rule="R-TABLE.eager"):
    """EagerCompiler::compile gives every name the source lists an entry: the pipeline from names() to the store has no
    filter / filter_map / skip / take / dedup / retain step and does not look at the text to decide whether to store it."""
    from origins import SelfOrigins
    fns = [f for f in P.fns.values() if f.kind == "method" and f.item_name == "compile" and f.id.startswith("liquid_core::partials::eager::")]
    if len(fns) != 1:
        rep.anchor_missing(rule, "EagerCompiler::compile")
        return
    fn = P.view(fns[0])
    lasts = []
    for body, _ in SelfOrigins(P, fn, seed={}).all_bodies():
        for bi, t in P.calls(body):
            if t.get("f") and not t["f"]["krate"].startswith("liquid"):
                lasts.append((t["f"]["id"].rsplit("::", 1)[1], t["line"], body))
    bad = [(l, line, b) for l, line, b in lasts if l in ("filter", "filter_map", "skip", "take", "skip_while", "take_while", "step_by", "dedup", "retain",
                                                          "trim", "trim_start", "trim_end", "is_empty", "flat_map", "flatten", "find", "position")]
    names = [l for l, _, _ in lasts]
    if "names" not in [t["f"]["id"].rsplit("::", 1)[1] for body, _ in SelfOrigins(P, fn, seed={}).all_bodies() for bi, t in P.calls(body) if t.get("f")]:
        rep.viol(rule, "EagerCompiler::compile names", P.where(fn), "compile does not enumerate PartialSource::names()")
    elif bad:
        l, line, b = bad[0]
        rep.viol(rule, "EagerCompiler::compile all-names", P.where(b, line),
                 "the eager pipeline uses `%s`: a listed partial can be left out of the store, so eager answers 'unknown' where lazy/on-demand compile it" % l)
    else:
        rep.ok(rule, "EagerCompiler::compile all-names", P.where(fn), "every listed name is compiled and stored (no filtering step: %s)" % sorted(set(names))[:8])


def run_compile_never_fails(P, rep, rule="R-DEFER"):
    """PartialCompiler::compile returns Ok on every path: no `?`, no Err aggregate into _0."""
    n = 0
    for im in P.impls_of(COMPILER):
        if im["crate"] not in ("liquid_core", "liquid"):
            continue
        items = {it["name"]: it["id"] for it in im["items"] if it["is_fn"]}
        fn = P.fns.get(items.get("compile"))
        if fn is None:
            continue
        n += 1
        site = "%s::compile" % P.impl_self_str(im).split("<")[0].rsplit("::", 1)[1]
        probs = []
        for bi, t in P.calls(fn):
            f = t.get("f")
            if f and f["id"] == FROM_RESIDUAL:
                probs.append(("a `?` can return an error from compile (line %d): building the parser would fail because of a partial's content" % t["line"], t["line"]))
        for b in fn.blocks:
            for st in b["s"]:
                if st[0] == "a" and st[1][0] == 0 and not st[1][1]:
                    rv = st[2]
                    if rv["k"] == "agg" and rv.get("id") == "core::result::Result":
                        if rv.get("vname") != "Ok":
                            probs.append(("compile returns Err", st[3]))
                    elif rv["k"] == "use":
                        probs.append(("compile returns a computed Result instead of Ok(store)", st[3]))
            t = b["t"]
            if t["k"] == "call" and t["d"][0] == 0 and not t["d"][1]:
                probs.append(("compile's result comes from `%s`, which may be Err" % (t["f"]["name"] if t.get("f") else "?"), t["line"]))
        if probs:
            for p, line in probs:
                rep.viol(rule, site, P.where(fn, line), p)
        else:
            rep.ok(rule, site, P.where(fn), "every return is Ok(store): parse errors are stored or deferred, never raised at build")
    if n < 3:
        rep.anchor_missing(rule, "PartialCompiler::compile impls (found %d)" % n)


def run_pipeline(P, rep, rule="R-PIPE"):
    """Each policy compiles with parser::parse(source text for `name`, the configured language) -> Template::new."""
    sites = [
        ("liquid_core::partials::ondemand::OnDemandStore", "get"), ("liquid_core::partials::ondemand::OnDemandStore", "try_get"),
        ("liquid_core::partials::lazy::LazyStore", "get_or_create"), ("liquid_core::partials::lazy::LazyStore", "try_get_or_create"),
    ]
    by = {}
    for fn in P.fns.values():
        if fn.impl and fn.kind == "method":
            tj = P.ty(fn.crate, fn.impl["self"])
            if tj["k"] == "adt":
                by[(tj["id"], fn.item_name)] = fn
    by = {k: P.view(f) if k in sites else f for k, f in by.items()}
    bodies = []
    for k in sites:
        fn = by.get(k)
        if fn is None:
            rep.anchor_missing(rule, "%s::%s" % k)
            continue
        bodies.append(("%s::%s" % (k[0].rsplit("::", 1)[1], k[1]), fn, 2))
    # eager: the closure inside compile
    # eager: whichever body of eager.rs (the compile method or a closure inside it) calls the parser
    ec = [f for f in P.fns.values() if f.id.startswith("liquid_core::partials::eager::") and "::test" not in f.id and
          any(t.get("f") and t["f"]["id"] == PARSE for bi, t in P.calls(f))]
    if len(ec) != 1:
        rep.anchor_missing(rule, "EagerCompiler::compile parse closure (found %d)" % len(ec))
    else:
        bodies.append(("EagerCompiler::compile{closure}" if ec[0].kind == "closure" else "EagerCompiler::compile", ec[0], None))
    for site, fn, name_local in bodies:
        parses = [(bi, t) for bi, t in P.calls(fn) if t.get("f") and t["f"]["id"] == PARSE]
        if len(parses) != 1:
            rep.viol(rule, site, P.where(fn), "expected exactly one parser::parse call, found %d" % len(parses))
            continue
        bi, t = parses[0]
        ol = op_local(t["args"][0])
        locs, calls = backward_slice(fn, ol[0]) if ol else (set(), [])
        ids = [c["f"]["id"] for c in calls if c.get("f")]
        probs = []
        if fn.kind != "closure":
            if not any(i.startswith(SOURCE + "::") for i in ids):
                probs.append("parsed text does not come from PartialSource::get/try_get")
            if name_local is not None and name_local not in locs:
                probs.append("parsed text does not depend on the requested name")
        for c in calls:
            f = c.get("f")
            if f and f["krate"].startswith("liquid") and not f["id"].startswith(SOURCE + "::"):
                probs.append("parsed text passes through `%s`" % f["name"])
        # Template::new is applied to the parse result (as a fn item handed to Result::map)
        has_new = False
        for b in fn.blocks:
            tt = b["t"]
            if tt["k"] == "call":
                for a in tt["args"]:
                    if a[0] == "k" and "fn" in a[1] and a[1]["fn"]["id"].endswith("template::{impl#0}::new"):
                        has_new = True
                if tt.get("f") and tt["f"]["name"].endswith("runtime::template::Template::new"):
                    has_new = True
        if not has_new:
            for cf, co in SelfOrigins(P, fn, seed={}).closures():
                for bi2, t2 in P.calls(cf):
                    if t2.get("f") and t2["f"]["name"].endswith("template::Template::new"):
                        has_new = True
        if not has_new:
            probs.append("runtime::Template::new is not applied to the parsed elements")
        if probs:
            for p in probs:
                rep.viol(rule, site, P.where(fn, t["line"]), p)
        else:
            rep.ok(rule, site, P.where(fn, t["line"]), "parse(source text, language) -> Template::new -> Arc")


def run_name_keyed(P, rep, rule="R-KEYED"):
    """EagerStore::get/try_get: everything returned derives from a HashMap lookup keyed by `name`."""
    by = {}
    for fn in P.fns.values():
        if fn.impl and fn.kind == "method" and fn.impl.get("trait") == STORE:
            tj = P.ty(fn.crate, fn.impl["self"])
            if tj["k"] == "adt":
                by[(tj["id"], fn.item_name)] = fn
    for m in ("get", "try_get"):
        fn = by.get(("liquid_core::partials::eager::EagerStore", m))
        if fn is None:
            rep.anchor_missing(rule, "EagerStore::" + m)
            continue
        site = "EagerStore::" + m
        lookups = [(bi, t) for bi, t in P.calls(fn) if t.get("f") and t["f"]["name"].endswith("::get") and "HashMap" in t["f"]["name"]]
        probs = []
        if len(lookups) != 1:
            probs.append("expected one keyed lookup, found %d" % len(lookups))
        else:
            ol = op_local(lookups[0][1]["args"][1])
            locs, calls = backward_slice(fn, ol[0]) if ol else (set(), [])
            if 2 not in locs:
                probs.append("lookup key does not derive from `name`")
            if any(c.get("f") and c["f"]["krate"].startswith("liquid") for c in calls):
                probs.append("lookup key is transformed by workspace code")
            ld = lookups[0][1]["d"][0]
            # every value reaching _0 depends on the lookup result
            srcs = []
            for bi, t in P.calls(fn):
                if t["d"][0] == 0 and not t["d"][1]:
                    srcs.append((t, [op_local(a)[0] for a in t["args"] if op_local(a)]))
            for b in fn.blocks:
                for st in b["s"]:
                    if st[0] == "a" and st[1][0] == 0 and not st[1][1]:
                        rv = st[2]
                        ls = []
                        for k in ("o",):
                            if k in rv and op_local(rv[k]):
                                ls.append(op_local(rv[k])[0])
                        for o in rv.get("ops", []):
                            if op_local(o):
                                ls.append(op_local(o)[0])
                        srcs.append((None, ls))
            for t, ls in srcs:
                dep = False
                for l in ls:
                    l2, _ = backward_slice(fn, l)
                    if ld in l2:
                        dep = True
                if not dep and ls:
                    probs.append("a returned value does not depend on the name-keyed lookup (another partial's state leaks into this answer)")
        if probs:
            for p in sorted(set(probs)):
                rep.viol(rule, site, P.where(fn), p)
        else:
            rep.ok(rule, site, P.where(fn), "result derives from store.get(name) only")


def run_loud(P, rep, rule="R-LOUD.partials"):
    """include/render obtain the partial with the failing lookup and propagate its error."""
    keys = [
        "<liquid_lib::stdlib::tags::include_tag::Include as liquid_core::runtime::renderable::Renderable>::render_to",
        "<liquid_lib::stdlib::tags::render_tag::Render as liquid_core::runtime::renderable::Renderable>::render_to",
        "<liquid_lib::jekyll::include_tag::Include as liquid_core::runtime::renderable::Renderable>::render_to",
    ]
    old = r_wprop.ADAPTER_NAMES
    for key in keys:
        fns = P.by_key(key)
        if len(fns) != 1:
            rep.anchor_missing(rule, key)
            continue
        fn = fns[0]
        site = key.split(" as ")[0].lstrip("<").rsplit("::", 2)[-2] + "::" + key.split(" as ")[0].rsplit("::", 1)[-1]
        gets = [(bi, t) for bi, t in P.calls(fn) if t.get("f") and t["f"].get("trait") == STORE and t["f"]["id"].endswith("::get")]
        trys = [(bi, t) for bi, t in P.calls(fn) if t.get("f") and t["f"].get("trait") == STORE and t["f"]["id"].endswith("::try_get")]
        if trys or not gets:
            rep.viol(rule, site, P.where(fn), "the partial is fetched with the optional lookup (or not at all): a missing partial would render as blank")
            continue
        for bi, t in gets:
            tr = Tracker(P, fn, lambda f, t2: False)
            saved = r_wprop.is_adapter
            try:
                r_wprop_is = saved

                def adapter2(f, _s=saved):
                    return _s(f) or f["name"].endswith(">::or_else")
                r_wprop.is_adapter = adapter2
                probs = tr.run(t["t"], 0, {t["d"][0]: "R"}) if t["t"] is not None and not t["d"][1] else []
            finally:
                r_wprop.is_adapter = saved
            if probs:
                for what, line in probs:
                    rep.viol(rule, site + " get", P.where(fn, line), "partial lookup error is not propagated: " + what)
            else:
                rep.ok(rule, site + " get", P.where(fn, t["line"]), "PartialStore::get(..)? — error returned to the caller")


STRING_TRANSFORMS = ("replace", "to_lowercase", "to_uppercase", "trim", "trim_start", "trim_end", "trim_matches", "trim_end_matches",
                     "trim_start_matches", "strip_prefix", "strip_suffix", "to_ascii_lowercase", "to_ascii_uppercase", "split", "rsplit",
                     "chars", "nfc", "nfkc", "normalize", "canonicalize", "file_name", "file_stem", "with_extension")


def run_source_keyed(P, rep, rule="R-KEYED.source"):
    """The in-memory partial source stores and looks names up verbatim: what names() lists is exactly what contains/try_get accept
    (an eager store keyed by names() and a lazy store that asks the source must agree)."""
    IM = "liquid_core::partials::inmemory::InMemorySource"
    fns = []
    for fn in P.fns.values():
        if fn.impl and fn.kind == "method":
            tj = P.ty(fn.crate, fn.impl["self"])
            if tj["k"] == "adt" and tj["id"] == IM and fn.item_name in ("contains", "try_get", "get", "add", "names"):
                fns.append(fn)
    if len(fns) < 4:
        rep.anchor_missing(rule, "InMemorySource methods (found %d)" % len(fns))
        return
    for fn in sorted(fns, key=lambda f: f.item_name):
        bad = []
        from origins import SelfOrigins
        for body, _ in SelfOrigins(P, fn, seed={}).all_bodies():
            for bi, t in P.calls(body):
                f = t.get("f")
                if not f:
                    continue
                last = f["id"].rsplit("::", 1)[1]
                if f["krate"].startswith("liquid") and not f.get("trait") and last not in ("new", "default"):
                    bad.append(f["name"])
                elif last in STRING_TRANSFORMS and fn.item_name != "names":
                    bad.append(f["name"])
        site = "InMemorySource::" + fn.item_name
        if bad:
            rep.viol(rule, site, P.where(fn), "partial names pass through %s: the names the source lists, stores and accepts can differ, so the compilation policies "
                     "(exact-keyed eager store vs. source-backed lazy/on-demand) no longer agree" % sorted(set(bad)))
        else:
            rep.ok(rule, site, P.where(fn), "name used verbatim")


# ---------------------------------------------------------------------------------------
# R-CACHEKEY: the lazy cache is written only under the requested name

CACHE_TY = "HashMap<alloc::string::String, core::result::Result<alloc::sync::Arc<dyn liquid_core::runtime::renderable::Renderable"
CACHE_WRITES = ("insert", "entry", "extend", "remove", "remove_entry", "clear", "retain", "get_mut", "drain", "try_insert", "raw_entry_mut",
                "get_or_insert_with", "or_insert_with", "or_insert", "extract_if")
KEY_COPIES = {"to_string", "to_owned", "into", "from", "clone", "as_ref", "deref", "as_str", "borrow", "to_string_lossy"}


def run_cache_key(P, rep, rule="R-CACHEKEY"):
    """Every write to the partial cache map (anywhere in partials/lazy.rs) is an `insert` whose key is a plain copy of a `&str`
    parameter (the requested name): no second entry under a derived name (alias), no removal, no in-place update."""
    n = 0
    for fn in sorted(P.fns.values(), key=lambda f: f.id):
        if not fn.file.endswith("partials/lazy.rs") or "::test" in fn.id:
            continue
        k = 0
        for bi, t in P.calls(fn):
            f = t.get("f")
            if not f or not t["args"]:
                continue
            ol = op_local(t["args"][0])
            if not ol or CACHE_TY not in P.local_ty(fn, ol[0]):
                continue
            last = f["id"].rsplit("::", 1)[1]
            if last not in CACHE_WRITES:
                continue
            n += 1
            site = "%s %s#%d" % (fn.key, last, k)
            k += 1
            if last != "insert":
                rep.viol(rule, site, P.where(fn, t["line"]), "the partial cache is modified with `%s`: the only write is insert(requested name, compiled result)" % last)
                continue
            kl = op_local(t["args"][1])
            locs, calls = backward_slice(fn, kl[0]) if kl else (set(), [])
            params = [i for i in range(1, fn.argc + 1) if P.local_ty(fn, i) in ("&str", "&alloc::string::String")]
            bad = [c["f"]["name"] for c in calls if c.get("f") and c["f"]["id"].rsplit("::", 1)[1] not in KEY_COPIES]
            if not any(p_ in locs for p_ in params):
                rep.viol(rule, site, P.where(fn, t["line"]), "the cache key does not derive from a name parameter")
            elif bad:
                rep.viol(rule, site, P.where(fn, t["line"]), "the cache key is transformed by `%s`: a partial is filed under a name other than the requested one" % bad[0])
            else:
                rep.ok(rule, site, P.where(fn, t["line"]), "insert(name.to_string(), result): key is a plain copy of the requested name")
            _cache_value_is_returned(P, rep, fn, bi, t, site, rule)
            # what is remembered under a name is the outcome of compiling that partial's source, nothing else (not a miss,
            # not a placeholder): a remembered miss makes a later failing lookup answer differently from a fresh store
            vl2 = op_local(t["args"][2]) if len(t["args"]) > 2 else None
            if vl2:
                _, vcalls = backward_slice(fn, vl2[0])
                def _parses(fid, depth=2):
                    if fid.endswith("parser::parser::parse"):
                        return True
                    g = P.fns.get(fid)
                    if g is None or depth <= 0:
                        return False
                    return any(t2.get("f") and _parses(t2["f"]["id"], depth - 1) for b2, t2 in P.calls(g))
                if not any(c.get("f") and _parses(c["f"]["id"]) for c in vcalls):
                    rep.viol(rule, site.replace("insert#", "insert-source#"), P.where(fn, t["line"]),
                             "a value that does not come from parser::parse (a remembered miss / placeholder) is written to the partial cache: later lookups of "
                             "that name answer from the cache instead of asking the source")
    rep.analysed[rule + ".writes"] = n


def _cache_value_is_returned(P, rep, fn, bi, t, site, rule):
    """After `cache.insert(name, V.clone())` the function hands back V itself (or `V.ok()`): what the first caller gets is
    what every later caller will get from the cache.  A value transformed after the insert (extra error context, a wrapper)
    makes the first render differ from the second."""
    from mirutil import defs_of, copy_root
    if len(t["args"]) < 3:
        return
    vl = op_local(t["args"][2])
    src = None
    if vl:
        ds = defs_of(fn, copy_root(fn, vl[0]))
        if len(ds) == 1 and ds[0][0] == "c" and ds[0][3].get("f") and ds[0][3]["f"]["id"].rsplit("::", 1)[1] == "clone":
            al = op_local(ds[0][3]["args"][0])
            if al:
                rd = defs_of(fn, al[0])
                if len(rd) == 1 and rd[0][0] == "a" and rd[0][3]["k"] == "ref":
                    src = rd[0][3]["p"][0] if not rd[0][3]["p"][1] else None
    if src is None:
        return      # the cached value is moved in, not cloned: nothing else is left to return
    after = P.reach(fn, P.succ(fn)[bi])
    bad = None
    n = 0
    for b in sorted(after):
        blk = fn.blocks[b]
        for st in blk["s"]:
            if st[0] == "a" and st[1][0] == 0 and not st[1][1]:
                n += 1
                rv = st[2]
                ol = op_local(rv["o"]) if rv["k"] == "use" else None
                if not (ol and not ol[1] and copy_root(fn, ol[0]) == src):
                    bad = bad or st[3]
        tt = blk["t"]
        if tt["k"] == "call" and tt["d"][0] == 0 and not tt["d"][1]:
            n += 1
            f = tt.get("f")
            a0 = op_local(tt["args"][0]) if tt.get("args") else None
            if not (f and f["id"].rsplit("::", 1)[1] == "ok" and "Result" in f["name"] and a0 and not a0[1] and copy_root(fn, a0[0]) == src):
                bad = bad or tt["line"]
    vsite = site.replace("insert#", "insert-value#")
    if bad is not None:
        rep.viol(rule, vsite, P.where(fn, bad),
                 "the value returned after the cache insert is not the cached value itself: the first caller of a partial gets a different "
                 "result (e.g. extra error context) from every later caller, so a re-render differs from the first render")
    elif n:
        rep.ok(rule, vsite, P.where(fn, t["line"]), "the value returned after the insert is the cached value itself (plain move / `.ok()`)")


# ---------------------------------------------------------------------------------------
# R-NOSKIP: include always looks its partial up

def run_no_skip(P, rep, rule="R-NOSKIP"):
    """Include::render_to (stdlib and jekyll): every `Ok(())` exit is dominated by the PartialStore lookup — no path returns
    success without having asked the store for the named partial (an empty or odd name must fail like any unknown partial)."""
    keys = ["<liquid_lib::stdlib::tags::include_tag::Include as liquid_core::runtime::renderable::Renderable>::render_to",
            "<liquid_lib::jekyll::include_tag::Include as liquid_core::runtime::renderable::Renderable>::render_to"]
    for key in keys:
        fns = P.by_key(key)
        if len(fns) != 1:
            rep.anchor_missing(rule, key)
            continue
        fn = fns[0]
        site = key.split(" as ")[0].lstrip("<").rsplit("::", 2)[-2] + "::Include"
        gets = [bi for bi, t in P.calls(fn) if t.get("f") and t["f"].get("trait") == STORE and t["f"]["id"].rsplit("::", 1)[1] in ("get", "try_get")]
        oks = [bi for bi, b in enumerate(fn.blocks) for st in b["s"]
               if st[0] == "a" and st[1][0] == 0 and not st[1][1] and st[2]["k"] == "agg" and st[2].get("vname") == "Ok"]
        if not gets:
            rep.viol(rule, site, P.where(fn), "no PartialStore lookup found in the include tag")
            continue
        und = [o for o in oks if not any(P.dominates(fn, g, o) for g in gets)]
        if und:
            line = [st[3] for st in fn.blocks[und[0]]["s"] if st[0] == "a" and st[1][0] == 0][0]
            rep.viol(rule, site, P.where(fn, line),
                     "the include tag can return Ok(()) without looking its partial up: a name that selects this path renders a silent blank instead of "
                     "failing like any other unknown partial")
        else:
            rep.ok(rule, site, P.where(fn), "every Ok(()) exit is dominated by the store lookup (%d exits)" % len(oks))


# ---------------------------------------------------------------------------------------
# R-LISTORDER: name lists that come from hash maps are sorted as a whole before they are shown

LIST_SOURCES = ("names", "plugin_names")
LIST_CUTS = ("take", "skip", "nth", "next", "last", "step_by", "take_while", "skip_while", "zip", "rev", "enumerate", "peekable",
             "chain", "truncate", "drain", "split_off", "pop", "remove", "swap_remove", "first", "get", "split_at", "chunks", "windows",
             "find", "position", "fold", "reduce")


def run_list_order(P, rep, rule="R-LISTORDER"):
    """Every `itertools::join` in liquid_core whose input derives from a registry / partial-store name list (`names()`,
    `plugin_names()`, or a `Vec<&str>` / iterator parameter handed in by such a caller): (a) the joined vector is sorted by a
    `sort*` call that dominates the join, and (b) nothing on the way from the source to the sort picks elements by position
    (take / skip / truncate / first ..): the names come out of a HashMap, so a positional cut before the sort makes the error
    text depend on the process-random hash order — the same template then fails with different messages."""
    from origins import backward_slice
    from mirutil import alias_closure, calls_using
    n = 0
    for fn in sorted(P.fns.values(), key=lambda f: f.id):
        if fn.crate != "liquid_core" or "::test" in fn.id:
            continue
        k = 0
        for bi, t in P.calls(fn):
            f = t.get("f")
            if not f or "itertools::join" not in f["name"] or not t["args"]:
                continue
            al0 = op_local(t["args"][0])
            if not al0:
                continue
            locs, calls = backward_slice(fn, al0[0])
            lasts = [(c["f"]["id"].rsplit("::", 1)[1], c) for c in calls if c.get("f")]
            src = [l for l, _ in lasts if l in LIST_SOURCES]
            params = [i for i in range(1, fn.argc + 1) if i in locs and fn.kind != "closure"
                      and ("Vec<&str>" in P.local_ty(fn, i) or "Vec<&'" in P.local_ty(fn, i) or "Iterator" in P.local_ty(fn, i))]
            if not src and not params:
                continue
            n += 1
            site = "%s join#%d" % (fn.key, k)
            k += 1
            cuts = [(l, c) for l, c in lasts if l in LIST_CUTS]
            if cuts:
                rep.viol(rule, site, P.where(fn, cuts[0][1]["line"]),
                         "the name list is cut by position (`%s`) before it is sorted: which names are shown depends on the hash order of the registry" % cuts[0][0])
                continue
            root = al0[0]
            al = alias_closure(fn, list(locs & set(l for l in locs if "Vec<" in P.local_ty(fn, l))))
            for _i in range(4):
                more = set()
                for b2, t2, p2 in calls_using(fn, al):
                    l2 = t2["f"]["id"].rsplit("::", 1)[1] if t2.get("f") else ""
                    if l2 in ("deref", "deref_mut", "as_mut_slice", "as_slice", "as_mut", "as_ref", "borrow_mut") and not t2["d"][1]:
                        more.add(t2["d"][0])
                if more <= al:
                    break
                al = alias_closure(fn, list(al | more))
            sorts = [b2 for b2, t2, p2 in calls_using(fn, al) if t2.get("f") and t2["f"]["id"].rsplit("::", 1)[1].startswith("sort")]
            if not any(P.dominates(fn, s_, bi) for s_ in sorts):
                rep.viol(rule, site, P.where(fn, t["line"]),
                         "a registry / partial-store name list is joined without a dominating sort: the message lists the names in hash order")
            else:
                rep.ok(rule, site, P.where(fn, t["line"]), "names (%s) → collect → sort → join; no positional cut before the sort" % ", ".join(sorted(set(src)) or ["parameter"]))
    rep.count(rule + ".sites", n)
