"""Property registry: which rules decide which clauses of which property."""
import facts
import r_wprop
import r_utf8sink
import r_verbatim

TRUST_COMMON = [
    "rustc nightly: MIR (mir-opt-level=0), type and trait resolution as dumped by driver/lrfacts",
    "std/core behaviour (io::Write::write_fmt, Result, Try desugaring)",
]


def P(config="all"):
    return facts.load(config)


def configs_for(tier):
    return ["all"] if tier == "quick" else ["all", "nodefault", "lib-stdlib", "lib-jekyll", "lib-shopify", "lib-extra", "release"]


def c10(rep, tier):
    for cfg in configs_for(tier):
        p = P(cfg)
        if cfg != "all":
            sub = type(rep)(rep.prop, rep.tier)
            r_wprop.run(p, sub)
            r_utf8sink.run(p, sub)
            for v in sub.violations:
                rep.viol(v["rule"], "[%s] %s" % (cfg, v["key"].split("|", 1)[1]), v["where"], v["what"], v["detail"])
            rep.analysed["config:" + cfg] = {"bodies": len(p.fns), "obligations": len(sub.obligations)}
            continue
        r_wprop.run(p, rep)
        r_wprop.run_adapters(p, rep)
        r_wprop.run_fmt(p, rep)
        r_utf8sink.run(p, rep)
        r_utf8sink.run_unsafe(p, rep)
        r_verbatim.buffered_render(p, rep)
        rep.analysed["config:all"] = {"bodies": len(p.fns), "crates": p.crates}


PROPS = {
    "C10": {
        "run": c10,
        "level": "proof",
        "design_ref": "DESIGN.md §3 R-WPROP, R-UTF8SINK, R-VERBATIM; §4 C10",
        "technique": "MIR path-sensitive must-propagate analysis of every sink-write / child-render Result (rustc_private driver)",
        "explanation": (
            "Decided for ALL inputs and fault points, from MIR: (S1) every Result returned by an io::Write call on the "
            "sink, by a child Renderable::render_to/render call, or by a helper taking the sink, reaches the function's own "
            "return on every CFG path through `?` (Try::branch -> Break -> from_residual -> _0) or as the tail value, via "
            "error adapters only; (S2) no sink write / child render is reachable while such a Result is pending or on the "
            "Break path; (S1b) the same for fmt::Result inside every Display::fmt of the library crates; the adapters "
            "(replace/chain/trace..) pass their receiver through; (S3) buffered render is render_to into one fresh Vec "
            "converted without transformation; (S4) only write_fmt (str-derived bytes) reaches the sink; unsafe census. "
            "NOT decided: short-count behaviour inside std's write_fmt/write_all (trusted), and byte-equality of outputs."
        ),
        "trusted": TRUST_COMMON,
        "assumptions": ["sequential evaluation of MIR statements; std's io::Write::write_fmt reports a failed write_all as Err"],
        "note": "trusted base: rustc MIR + std; decides propagation structure, not byte equality",
    },
}
