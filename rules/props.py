"""Property registry: which rules decide which clauses of which property."""
import facts
import r_wprop
import r_utf8sink
import r_verbatim
import r_fwd
import r_scope
import r_pair
import r_nogrow
import r_freeze
import r_lock
import r_partials
import r_cmp
import r_table
import r_arith
import r_math
import r_panic
import r_grammar
import r_parsers
import r_term
import r_lookup
import grammar
import r_unit
import r_views

TRUST_COMMON = [
    "rustc nightly: MIR (mir-opt-level=0), type and trait resolution as dumped by driver/lrfacts",
    "std/core behaviour (io::Write::write_fmt, Result, Try desugaring)",
]


def P(config="all"):
    return facts.load(config)


def configs_for(tier):
    return ["all"] if tier == "quick" else ["all", "nodefault", "lib-stdlib", "lib-jekyll", "lib-shopify", "lib-extra", "release"]


def _sink_path_files(fn):
    f = fn.file
    return f.endswith(("parser/text.rs", "parser/filter_chain.rs", "runtime/template.rs", "src/template.rs", "runtime/renderable.rs",
                       "blocks/raw_block.rs", "blocks/ifchanged_block.rs", "tags/cycle_tag.rs", "tags/increment_tags.rs")) or "/error/" in f


def c10(rep, tier):
    for cfg in configs_for(tier):
        p = P(cfg)
        if cfg != "all":
            sub = type(rep)(rep.prop, rep.tier)
            r_wprop.run(p, sub)
            r_utf8sink.run(p, sub)
            for v in sub.violations:
                rep.viol(v["rule"], "[%s] %s" % (cfg, v["key"].split("|", 1)[1]), v["where"], v["what"], v["detail"])
            rep.analysed["config:" + cfg] = {"bodies": len(p.fns), "obligations": len(sub.obligations)}
            continue
        r_wprop.run(p, rep)
        r_wprop.run_adapters(p, rep)
        r_wprop.run_fmt(p, rep)
        r_utf8sink.run(p, rep)
        r_utf8sink.run_unsafe(p, rep)
        r_verbatim.buffered_render(p, rep)
        r_wprop.run_sink_identity(p, rep)
        # a failed write returns early: nothing a renderable staged may survive in the compiled node (no interior mutability)
        r_freeze.run_freeze(p, rep)
        # "never a panic": panic-capable sites (incl. string slices) in the files that sit on the write / error-decoration path
        g = grammar.load(facts.REPO)
        r_panic.run(p, rep, g, "both", only=_sink_path_files)
        rep.analysed["config:all"] = {"bodies": len(p.fns), "crates": p.crates}


def c18(rep, tier):
    p = P("all")
    r_fwd.run_runtime_matrix(p, rep)
    r_fwd.run_lookup_keying(p, rep)
    r_scope.run_build(p, rep)
    r_scope.run_newruntime(p, rep)
    # the failing form is the optional form plus an error: find never manufactures a value try_find did not produce
    r_lookup.run_find_loud(p, rep)
    rep.analysed["config:all"] = {"bodies": len(p.fns)}


def _partial_files(fn):
    f = fn.file
    return "/partials/" in f or f.endswith(("tags/include_tag.rs", "tags/render_tag.rs", "jekyll/include_tag.rs", "src/partials.rs"))


def c08(rep, tier):
    p = P("all")
    SB = "liquid_core::runtime::stack::SandboxedStackFrame"
    r_fwd.run_runtime_matrix(p, rep, rows=[SB, "liquid_core::runtime::stack::GlobalFrame",
                                           "liquid_core::runtime::stack::StackFrame", "&R"])
    r_scope.run_scopetype(p, rep, keys=[k for k in r_scope.SCOPE_SPEC if "Render " in k or "Include " in k or "render_tag" in k or "include_tag" in k])
    r_scope.run_rtcalls(p, rep, only=["liquid_lib::stdlib::tags::include_tag::Include", "liquid_lib::stdlib::tags::render_tag::Render"])
    r_scope.run_argeval(p, rep)
    r_scope.run_args_loud(p, rep)
    r_scope.run_bind_order(p, rep)
    r_pair.check_loop_reset(p, rep, "<liquid_lib::stdlib::tags::render_tag::Render as liquid_core::runtime::renderable::Renderable>::render_to", "Render::render_to(for)")
    r_partials.run_loud(p, rep)
    r_partials.run_no_skip(p, rep)
    # the *tag* fails when its partial does not parse: a broken partial is kept as a per-name Result, building the parser never fails on it
    r_partials.run_eager_shape(p, rep)
    r_partials.run_compile_never_fails(p, rep)
    r_freeze.run_freeze(p, rep)
    # "a break inside an include ends the caller's loop": the enclosing template polls after every element, tags included
    r_pair.run_template_poll(p, rep)
    r_pair.run_interrupt_tags(p, rep)
    # "never a crash": panic-capable sites in the partial stores and the two tags
    g = grammar.load(facts.REPO)
    r_panic.run(p, rep, g, "both", only=_partial_files)
    rep.analysed["config:all"] = {"bodies": len(p.fns)}


def c04(rep, tier):
    p = P("all")
    r_scope.run_build(p, rep)
    r_scope.run_scopetype(p, rep)
    r_fwd.run_runtime_matrix(p, rep, methods=["set_global", "set_index", "get_index", "get", "try_get"])
    r_fwd.run_lookup_keying(p, rep)
    r_scope.run_rtcalls(p, rep)
    r_scope.run_argeval(p, rep)
    r_scope.run_args_loud(p, rep)
    r_parsers.run_tag_args_kept(p, rep)
    r_verbatim.param_unused(p, rep, "<liquid_lib::stdlib::blocks::capture_block::Capture as liquid_core::runtime::renderable::Renderable>::render_to", 2)
    r_verbatim.capture_binds_text(p, rep, "<liquid_lib::stdlib::blocks::capture_block::Capture as liquid_core::runtime::renderable::Renderable>::render_to")
    r_utf8sink.run_unsafe(p, rep)
    rep.analysed["config:all"] = {"bodies": len(p.fns)}


def c05(rep, tier):
    p = P("all")
    r_nogrow.run(p, rep)
    r_pair.run_template_poll(p, rep)
    r_pair.run_reset(p, rep)
    r_pair.run_interrupt_tags(p, rep)
    r_pair.run_for_else(p, rep)
    r_pair.run_loop_index(p, rep)
    r_pair.run_argflow(p, rep)
    r_pair.run_range(p, rep)
    r_pair.run_empty_ok(p, rep)
    r_pair.run_attr_loop(p, rep)
    r_pair.run_object_pairs(p, rep)
    r_pair.run_col_last(p, rep)
    rep.analysed["config:all"] = {"bodies": len(p.fns)}


def c06(rep, tier):
    p = P("all")
    r_pair.run_excl_conditional(p, rep)
    r_pair.run_excl_case(p, rep)
    r_table.run_operator_table(p, rep)
    r_table.run_condition_tree(p, rep)
    r_table.run_construct(p, rep)
    r_table.run_existence(p, rep)
    r_table.run_truth_table(p, rep)
    r_cmp.run_eqonly(p, rep)
    r_cmp.run_contains(p, rep)
    r_cmp.run_cmp_orientation(p, rep)
    r_cmp.run_mirror(p, rep)
    r_cmp.run_value_symmetry(p, rep)
    r_table.run_missing_key_eq(p, rep)
    r_parsers.run_when_values(p, rep)
    r_parsers.run_case_arm_reset(p, rep)
    r_pair.run_argflow(p, rep)
    rep.analysed["config:all"] = {"bodies": len(p.fns)}


def c09(rep, tier):
    p = P("all")
    r_lock.run_global_setters(p, rep)
    r_freeze.run_freeze(p, rep)
    r_freeze.run_statics(p, rep)
    r_lock.run_ambient(p, rep)
    r_scope.run_newruntime(p, rep)
    r_lock.run_lock(p, rep)
    r_partials.run_cache_key(p, rep)
    r_partials.run_list_order(p, rep)
    r_freeze.run_autos(p, rep)
    r_utf8sink.run_unsafe(p, rep)
    rep.analysed["config:all"] = {"bodies": len(p.fns)}
    if tier == "thorough":
        for cfg in ("nodefault", "lib-stdlib", "lib-jekyll", "lib-shopify", "lib-extra"):
            q = P(cfg)
            sub = type(rep)(rep.prop, rep.tier)
            r_freeze.run_statics(q, sub)
            r_lock.run_ambient(q, sub)
            for v in sub.violations:
                rep.viol(v["rule"], "[%s] %s" % (cfg, v["key"].split("|", 1)[1]), v["where"], v["what"], v["detail"])
            rep.analysed["config:" + cfg] = {"bodies": len(q.fns), "obligations": len(sub.obligations)}


def c19(rep, tier):
    p = P("all")
    r_partials.run_store_matrix(p, rep)
    r_partials.run_eager_shape(p, rep)
    r_partials.run_eager_all_names(p, rep)
    r_partials.run_compile_never_fails(p, rep)
    r_partials.run_pipeline(p, rep)
    r_partials.run_name_keyed(p, rep)
    r_partials.run_source_keyed(p, rep)
    r_partials.run_cache_key(p, rep)
    r_partials.run_list_order(p, rep)
    r_partials.run_loud(p, rep)
    r_lock.run_lock(p, rep)
    # on-demand compiles a partial again on every use, eager/lazy once: the policies agree only if compiling is a pure
    # function of the text (no process-wide counter or clock consulted while parsing, no identity given to a compiled node)
    r_freeze.run_statics(p, rep)
    r_lock.run_ambient(p, rep)
    # eager/lazy hand the same compiled object to every use, on-demand a fresh one: a compiled template with interior state
    # (a cached hint, a depth counter) makes the policies differ — compiled renderables are frozen
    r_freeze.run_freeze(p, rep)
    g = grammar.load(facts.REPO)
    r_panic.run(p, rep, g, "both", only=_partial_files)
    # the eager policy compiles every registered partial while the parser is built: a *panic* anywhere in parsing is a build
    # that fails because of a partial nobody uses — the parse-side census (C01's) is therefore an obligation of C19 as well
    r_panic.run(p, rep, g, "parse", only=lambda fn: not _partial_files(fn))
    rep.analysed["config:all"] = {"bodies": len(p.fns)}


def c20(rep, tier):
    p = P("all")
    r_lock.run_global_setters(p, rep)
    r_freeze.run_autos(p, rep)
    r_freeze.run_freeze(p, rep)
    r_freeze.run_statics(p, rep)
    r_lock.run_lock(p, rep)
    r_lock.run_reentrant_refcell(p, rep)
    r_utf8sink.run_unsafe(p, rep)
    # poisoning: parser::parse runs under the cache lock, so any panic site of the parse census can poison the store
    g = grammar.load(facts.REPO)
    sub = type(rep)(rep.prop, rep.tier)
    r_panic.run(p, sub, g, "parse")
    r_grammar.run_totality(sub, g)
    pr, rr = r_panic.reach_sets(p)
    r_arith.run(p, sub, reach=pr)
    n_ok = sum(1 for o in sub.obligations if o["ok"])
    for v in sub.violations:
        rep.viol("R-LOCK.poison", "panic under the cache lock: " + v["key"].split("|", 1)[1], v["where"],
                 "LazyStore compiles partials while holding its Mutex; this parser panic site would poison the lock for every later use: " + v["what"], v["detail"])
    rep.ok("R-LOCK.poison", "parse census under the lock", "-", "%d panic-capable parser sites are discharged (C01's census)" % n_ok)
    rep.analysed["config:all"] = {"bodies": len(p.fns)}


def c11(rep, tier):
    p = P("all")
    r_cmp.run_delegation(p, rep)
    r_cmp.run_mirror(p, rep)
    r_cmp.run_cmp_orientation(p, rep)
    r_cmp.run_no_identity(p, rep)
    r_table.run_missing_key_eq(p, rep)
    r_cmp.run_one_sided(p, rep)
    r_cmp.run_sort_purity(p, rep)
    r_cmp.run_contains(p, rep)
    r_cmp.run_value_symmetry(p, rep)
    r_cmp.run_orderins(p, rep, [r_cmp.CORE_FNS["value_eq"], r_cmp.CORE_FNS["value_cmp"]])
    r_cmp.run_eqonly(p, rep)
    r_table.run_operator_table(p, rep)
    r_table.run_date_cmp(p, rep)
    rep.analysed["config:all"] = {"bodies": len(p.fns)}


def c14(rep, tier):
    p = P("all")
    r_cmp.run_cmptotal(p, rep)
    r_cmp.run_eqonly(p, rep)
    r_cmp.run_orderins(p, rep, [r_cmp.CORE_FNS["value_eq"], r_cmp.CORE_FNS["value_cmp"]])
    # the comparator sort is built on: scalar_eq / scalar_cmp agree pairwise and are mirror-symmetric (a non-decreasing result needs a consistent order)
    r_cmp.run_mirror(p, rep)
    r_cmp.run_cmp_orientation(p, rep)
    r_unit.run_slice_window(p, rep)
    r_cmp.run_uniq_kept(p, rep)
    r_table.run_first_last_kind(p, rep)
    r_table.run_missing_key_eq(p, rep)
    r_table.run_filter_ops(p, rep, only=["array::"])
    r_table.run_missing_property(p, rep)
    r_table.run_state_use(p, rep, only=["WhereFilter", "CompactFilter"])
    rep.analysed["config:all"] = {"bodies": len(p.fns)}


def c15(rep, tier):
    p = P("all")
    r_arith.run(p, rep, scope=lambda fn: fn.id.startswith("liquid_lib::stdlib::filters::math::"))
    r_math.run(p, rep)
    r_math.run_coerce(p, rep)
    r_math.run_round_cast(p, rep)
    r_math.run_float_path(p, rep)
    r_views.run_cast(p, rep)
    r_table.run_filter_ops(p, rep, only=["math::"])
    r_math.run_zero_test_operand(p, rep)
    rep.analysed["config:all"] = {"bodies": len(p.fns)}


def c01(rep, tier):
    p = P("all")
    g = grammar.load(facts.REPO)
    r_grammar.run_totality(rep, g)
    r_panic.run(p, rep, g, "parse")
    pr, rr = r_panic.reach_sets(p)
    r_arith.run(p, rep, reach=pr)
    r_parsers.run_arity(p, rep)
    r_parsers.run_closed(p, rep)
    r_parsers.run_filter_arity(p, rep)
    r_parsers.run_nodrop(p, rep)
    r_parsers.run_unclosed(p, rep)
    r_parsers.run_comment_raw(p, rep)
    r_parsers.run_source_verbatim(p, rep)
    r_lock.run_global_setters(p, rep)
    r_term.run(p, rep, pr, "parse")
    r_term.run_parse_cost(p, rep, pr)
    rep.analysed["config:all"] = {"bodies": len(p.fns), "parse_reachable": len(pr)}


def c02(rep, tier):
    p = P("all")
    g = grammar.load(facts.REPO)
    r_panic.run(p, rep, g, "render")
    pr, rr = r_panic.reach_sets(p)
    r_arith.run(p, rep, reach=rr)
    r_utf8sink.run(p, rep)
    r_utf8sink.run_unsafe(p, rep)
    r_lock.run_reentrant_refcell(p, rep)
    r_cmp.run_cmptotal(p, rep)
    r_cmp.run_cmp_orientation(p, rep)
    r_term.run(p, rep, rr, "render")
    rep.analysed["config:all"] = {"bodies": len(p.fns), "render_reachable": len(rr)}
    if tier == "thorough":
        for cfg in ("lib-stdlib", "lib-jekyll", "lib-shopify", "lib-extra", "nodefault"):
            q = P(cfg)
            sub = type(rep)(rep.prop, rep.tier)
            q_pr, q_rr = r_panic.reach_sets(q)
            r_arith.run(q, sub, reach=q_rr)
            for v in sub.violations:
                rep.viol(v["rule"], "[%s] %s" % (cfg, v["key"].split("|", 1)[1]), v["where"], v["what"], v["detail"])
            rep.analysed["config:" + cfg] = {"bodies": len(q.fns), "obligations": len(sub.obligations)}


def c03(rep, tier):
    p = P("all")
    g = grammar.load(facts.REPO)
    r_grammar.run_whitespace(rep, g)
    r_grammar.run_delimiters(rep, g)
    r_grammar.run_hyphen(rep, g)
    r_grammar.run_totality(rep, g)
    RT = " as liquid_core::runtime::renderable::Renderable>::render_to"
    r_verbatim.single_field_print(p, rep, ["<liquid_core::parser::text::Text" + RT, "<liquid_lib::stdlib::blocks::raw_block::RawT" + RT])
    r_verbatim.no_calls(p, rep, "<liquid_lib::stdlib::blocks::comment_block::Comment" + RT)
    r_parsers.run_comment_raw(p, rep)
    r_parsers.run_escape_closer(p, rep)
    r_parsers.run_escape_span(p, rep)
    r_parsers.run_nodrop(p, rep)
    r_parsers.run_bodykeep(p, rep)
    r_parsers.run_source_verbatim(p, rep)
    r_lock.run_global_setters(p, rep)
    r_verbatim.buffered_render(p, rep)
    r_utf8sink.run(p, rep)
    rep.analysed["config:all"] = {"bodies": len(p.fns)}


def c07(rep, tier):
    p = P("all")
    g = grammar.load(facts.REPO)
    r_lookup.run_loud(p, rep)
    r_lookup.run_find_loud(p, rep)
    r_lookup.run_overlay(p, rep)
    r_lookup.run_literal_verbatim(p, rep)
    r_lookup.run_noclamp(p, rep)
    r_lookup.run_path_verbatim(p, rep)
    r_fwd.run_runtime_matrix(p, rep, methods=["get", "try_get"])
    r_fwd.run_lookup_keying(p, rep)
    r_math.run_coerce(p, rep)
    # literal obligations of parse_literal (shared with C01): grammar facts for every literal conversion
    sub = type(rep)(rep.prop, rep.tier)
    r_panic.run(p, sub, g, "parse")
    import inline
    names = ["parse_literal", "parse_variable_pair", "parse_value"]
    for nm in list(names):
        for f_ in p.fns.values():
            if f_.id == "liquid_core::parser::parser::" + nm:
                names += [h.rsplit("::", 1)[-1] for h in inline.helpers_of(p, [f_], depth=1)]
    for o in sub.obligations:
        if any(nm in o["site"] for nm in names):
            if o["ok"]:
                rep.ok(o["rule"], o["site"], o["where"], o["how"])
    for v in sub.violations:
        if any(nm in v["key"] for nm in names):
            rep.viol(v["rule"], v["key"].split("|", 1)[1], v["where"], v["what"], v["detail"])
    # a parsed path keeps no state between evaluations (a memoised index path replays the first evaluation's indices)
    r_freeze.run_freeze(p, rep)
    rep.analysed["config:all"] = {"bodies": len(p.fns)}


def c16(rep, tier):
    p = P("all")
    r_table.run_entities(p, rep)
    r_table.run_once_lookup(p, rep)
    r_table.run_url(p, rep)
    import r_strslice
    fns = [f for f in p.fns.values() if f.id.startswith("liquid_lib::stdlib::filters::html::") or f.id.startswith("liquid_lib::stdlib::filters::url::")]
    r_strslice.run(p, rep, sorted(fns, key=lambda f: f.id))
    r_unit.run_unit_mix(p, rep, only=["filters::html::", "filters::url::"])
    rep.analysed["config:all"] = {"bodies": len(p.fns)}


def c17(rep, tier):
    p = P("all")
    r_table.run_directives(p, rep)
    r_table.run_fmt_numeric(p, rep)
    r_table.run_sign(p, rep)
    r_table.run_parse_formats(p, rep)
    r_table.run_case_flag(p, rep)
    r_table.run_width_class(p, rep)
    r_table.run_subsec_selector(p, rep)
    r_table.run_date_formats(p, rep)
    r_table.run_date_cmp(p, rep)
    import r_strslice
    fns = [f for f in p.fns.values() if f.id.startswith("liquid_core::model::scalar::datetime::")]
    r_strslice.run(p, rep, sorted(fns, key=lambda f: f.id))
    r_cmp.run_mirror(p, rep)
    rep.analysed["config:all"] = {"bodies": len(p.fns)}


def c13(rep, tier):
    p = P("all")
    r_unit.run(p, rep)
    r_unit.run_unit_mix(p, rep)
    r_unit.run_slice_window(p, rep)
    r_table.run_first_last_kind(p, rep)
    r_unit.run_split_join(p, rep)
    r_unit.run_truncate_decision(p, rep)
    r_table.run_filter_ops(p, rep, only=["string::", "html::NewlineToBr", "slice::", "SizeFilter"])
    r_table.run_state_use(p, rep, only=["DefaultFilter"])
    r_lookup.run_fold_order(p, rep)
    import r_strslice
    fns = [f for f in p.fns.values() if f.id.startswith("liquid_lib::stdlib::filters::string::") or f.id.startswith("liquid_lib::stdlib::filters::slice::")]
    r_strslice.run(p, rep, sorted(fns, key=lambda f: f.id))
    rep.analysed["config:all"] = {"bodies": len(p.fns)}


def c12(rep, tier):
    p = P("all")
    r_views.run_forwarders(p, rep)
    r_views.run_string_siblings(p, rep)
    r_views.run_variant_key(p, rep)
    r_views.run_char_bridge(p, rep)
    r_views.run_cast(p, rep)
    r_views.run_derived(p, rep)
    r_table.run_truth_table(p, rep)
    r_table.run_date_formats(p, rep)
    r_table.run_state_use(p, rep, only=["deserialize_option"])
    r_table.run_subsec_selector(p, rep)
    rep.analysed["config:all"] = {"bodies": len(p.fns)}


PROPS = {
    "C10": {
        "run": c10,
        "level": "proof",
        "design_ref": "DESIGN.md §3 R-WPROP, R-UTF8SINK, R-VERBATIM; §4 C10",
        "technique": "MIR path-sensitive must-propagate analysis of every sink-write / child-render Result (rustc_private driver)",
        "explanation": (
            "Decided for ALL inputs and fault points, from MIR: (S1) every Result returned by an io::Write call on the "
            "sink, by a child Renderable::render_to/render call, or by a helper taking the sink, reaches the function's own "
            "return on every CFG path through `?` (Try::branch -> Break -> from_residual -> _0) or as the tail value, via "
            "error adapters only; (S2) no sink write / child render is reachable while such a Result is pending or on the "
            "Break path; (S1b) the same for fmt::Result inside every Display::fmt of the library crates; the adapters "
            "(replace/chain/trace..) pass their receiver through; (S3) buffered render is render_to into one fresh Vec "
            "converted without transformation; (S4) only write_fmt (str-derived bytes) reaches the sink, never a bare write; the sink handed on is always the "
            "caller's own writer or a local Vec (no buffering adapter whose flush/Drop can lose an error); unsafe census. "
            "No Renderable has interior-mutable state (R-FREEZE), so bytes staged before a failed write cannot survive in the compiled template. "
            "NOT decided: short-count behaviour inside std's write_fmt/write_all (trusted), and byte-equality of outputs."
        ),
        "trusted": TRUST_COMMON,
        "assumptions": ["sequential evaluation of MIR statements; std's io::Write::write_fmt reports a failed write_all as Err"],
        "note": "trusted base: rustc MIR + std; decides propagation structure, not byte equality",
    },
    "C18": {
        "run": c18,
        "level": "other",
        "design_ref": "DESIGN.md §3 R-FWD, R-SCOPETYPE; §4 C18",
        "technique": "MIR role extraction per (Runtime impl, method) compared with a 54-cell forwarding/ownership matrix; CFG polarity of the membership branch",
        "explanation": (
            "Decided for all stacks and operation sequences, from MIR: every one of the 6 Runtime implementors x 9 methods has the role the layer "
            "algebra needs (own data / forward to the SAME-named parent method / diverge), a sandbox never calls a parent lookup, roots = parent+own "
            "(sandbox own only), set_global lands in GlobalFrame, set_index/get_index in IndexFrame, registers fresh in the sandbox; in get/try_get "
            "membership is keyed by path.first(), own lookup is on the true edge and the parent on the false edge, get uses find and try_get try_find "
            "on the whole path; RuntimeBuilder::build layers Global<Stack<Index<Core>,globals>>; RuntimeCore is never built elsewhere. "
            "NOT decided: agreement of lookups on concrete operation sequences (find/try_find semantics, C07)."
        ),
        "trusted": TRUST_COMMON,
        "note": "decides forwarding structure only; the stepwise lookup functions are C07's subject",
    },
    "C08": {
        "run": c08,
        "level": "other",
        "design_ref": "DESIGN.md §3 R-SCOPETYPE, R-FWD, R-PAIR, R-RTCALLS; §4 C08",
        "technique": "type of the runtime passed to the partial read off MIR (pre-coercion), sandbox rows of the forwarding matrix, reset-post-dominates-body CFG rule",
        "explanation": (
            "Decided from MIR for all programs: render hands the partial &GlobalFrame<SandboxedStackFrame<caller,args>> in both of its branches and "
            "include hands &StackFrame<caller,args>, each layered directly over the caller's runtime; SandboxedStackFrame::get/try_get/roots never "
            "call the parent and its registers are its own, while set_global of the fresh GlobalFrame is own; render-for resets the interrupt "
            "after every body render before the back-edge or exit and Break leaves the loop; include/render fetch the partial with the failing lookup and "
            "propagate; the enclosing Template polls the interrupt register after every element unconditionally and break/continue set it unconditionally (so a break "
            "inside an include ends the caller's loop); argument expressions are evaluated against the caller's runtime (R-ARGEVAL); every panic-capable site in the "
            "partial stores and the two tags is discharged (R-PANIC over those files: a missing partial is an error, not a crash); "
            "propagate; the tags hold no interior-mutable state (no memoised partial). NOT decided: non-interference of whole programs, error text, partial-store behaviour (C19)."
        ),
        "trusted": TRUST_COMMON,
        "note": "structural necessary conditions of isolation/sharing; not a non-interference proof",
    },
    "C04": {
        "run": c04,
        "level": "other",
        "design_ref": "DESIGN.md §3 R-SCOPETYPE, R-FWD, R-RTCALLS, R-ARGEVAL, R-VERBATIM; §4 C04",
        "technique": "layer order read from the MIR type of RuntimeBuilder::build, forwarding matrix rows for set_global/set_index/get/try_get, per-renderable Runtime-operation census",
        "explanation": (
            "Decided from MIR: the per-render runtime is Global over caller data over counters over core; every construct renders its body in the "
            "layers its scoping rule needs (for/tablerow/include: plain StackFrame over the caller's runtime; if/case/capture/ifchanged: the caller's "
            "runtime itself); assign/capture call exactly set_global, increment/decrement exactly get_index/set_index; each layer answers from its "
            "own data iff it holds the first path key, else delegates; capture never touches its writer and binds exactly Value::scalar(from_utf8(buffer)) "
            "unconditionally; no layer operation removes a binding; every Expression/Variable/FilterChain evaluation takes the runtime parameter of the "
            "function it occurs in, never a layer built there (R-ARGEVAL: include/render arguments, loop attributes and conditions are read in the caller's "
            "scope); no user unsafe code. "
            "NOT decided: the precedence outcome for each concrete program (follows from the above plus find())."
        ),
        "trusted": TRUST_COMMON,
        "note": "caller data immutability rests on &dyn ObjectView + absence of unsafe (checked) and interior mutability (C09 R-FREEZE)",
    },
    "C05": {
        "run": c05,
        "level": "other",
        "design_ref": "DESIGN.md §3 R-NOGROW, R-PAIR, R-EXCL; §4 C05",
        "technique": "call census on the selected-elements vector (shrink/permute only) + CFG post-dominance of InterruptRegister::reset / interrupted poll",
        "explanation": (
            "Decided from MIR for all loops: iter_array only shrinks/permutes the element vector and returns it (no phantom elements); the body "
            "template polls the interrupt register after every element and stops on it; For resets the interrupt after every body render before "
            "the back-edge or exit and leaves the loop on Break; break/continue set their own kind; the else branch runs only on the len()==0 edge; loop objects "
            "are built from a forward Enumerate<IntoIter> index and selected.len(); limit/offset/reversed reach their own iter_array parameters; a range is the "
            "inclusive range of its bounds with no non-strict emptiness guard; nothing can fail between window selection and the element loop. "
            "NOT decided: window arithmetic (offset/limit values) and every forloop/tablerow field (numeric)."
        ),
        "trusted": TRUST_COMMON,
        "note": "numeric clauses of the property are declared out of reach of static analysis",
    },
    "C06": {
        "run": c06,
        "level": "other",
        "design_ref": "DESIGN.md §3 R-EXCL, R-CONSTRUCT, R-TABLE; §4 C06",
        "technique": "CFG mutual-unreachability of branch renders, edge polarity of condition switches, decision tables (operator -> comparison method, truthiness per State) read off MIR by variant-directed path following",
        "explanation": (
            "Decided from MIR: Conditional renders if_true only on the true edge and if_false only on the false edge of one switch on compare(), "
            "compare() is evaluate()==mode (unless = negated if); Case renders the first arm whose test is true and returns, else only after the "
            "arm loop is exhausted; each comparison operator is decided by exactly its ValueViewCmp method on (lh, rh) and the operator spellings map to "
            "the right variants; and/or short-circuit on the correct edge; Disjunction is built only over conjunction chains (x or y and z = x or (y and z)); a "
            "bare value uses the non-failing lookup and State::Truthy; the truthiness table (numbers, dates, strings, arrays, objects true; nil false) is "
            "read from every query_state; case/when matches by == only with no kind dispatch; unless builds mode=false, if/elsif mode=true. "
            "`contains` on an array decides membership by ValueViewCmp == only, never by a string rendering (R-CONTAINS); every value of a `when` list reaches the "
            "list before the next token is read and nothing compares/removes values at parse time (R-KEEPVALS). "
            "NOT decided: the value of each comparison (C11)."
        ),
        "trusted": TRUST_COMMON,
        "note": "exactly-one-branch structure only",
    },
    "C09": {
        "run": c09,
        "level": "other",
        "design_ref": "DESIGN.md §3 R-FREEZE, R-STATICS, R-AMBIENT, R-NEWRUNTIME, R-LOCK, R-AUTO; §4 C09",
        "technique": "closed-world deep-immutability type walk over ADT facts (UnsafeCell reachability), statics census, call-graph scan for ambient reads, rustc auto-trait facts",
        "explanation": (
            "Decided from type and MIR facts for all histories: no UnsafeCell is reachable (through owned fields, Box/Vec/Arc, references, and every workspace "
            "implementor of every dyn trait) from any Renderable/Filter/Parse*/PartialStore implementor, Template, Parser, Language or model value, "
            "except the ledgered LazyStore.cache whose discipline R-LOCK decides (one lock, keyed by the requested name, value = parse(source(name), "
            "language)); statics are immutable or LazyLock<Regex>; no thread_local/static mut; no ambient read (clock, env, fs) on the render path "
            "except the date parser's explicit now/today arm; render_to builds its runtime inside the call and Registers are created only by "
            "RuntimeCore::default / SandboxedStackFrame::new; the built runtime is !Sync per rustc's trait solver. "
            "every write to the lazy cache is insert(requested name, result) with the key a plain copy of the name parameter (R-CACHEKEY: no alias entries). "
            "NOT decided: equality of results across histories (follows only if no other channel exists), hash iteration order."
        ),
        "trusted": TRUST_COMMON + ["rustc trait solver for Send/Sync/Freeze of closed types", "std: UnsafeCell is the only source of interior mutability; no user unsafe (census checked)"],
        "note": "absence-of-state argument: sound for safe Rust given the unsafe census is empty",
    },
    "C19": {
        "run": c19,
        "level": "other",
        "design_ref": "DESIGN.md §3 R-FWD(PartialStore), R-LOCK, R-LOUD; §4 C19",
        "technique": "delegation matrix over PartialStore impls, return-path census of PartialCompiler::compile, backward slices of cache keys / parsed text / returned values",
        "explanation": (
            "Decided from MIR: all three policies compile with parser::parse(text from PartialSource::get/try_get(name), configured language) -> Template::new; "
            "every PartialCompiler::compile returns Ok on every path (no `?`), the eager store keeps one Result per name and its get/try_get answers derive "
            "from store.get(name) only; failing and optional lookups never delegate to each other; the lazy cache is keyed by the requested name itself "
            "with lookup+compile+insert under one lock; include/render use the failing lookup and propagate its error. "
            "Every write to the lazy cache is insert(requested name, result), key = plain copy of the name (R-CACHEKEY); panic-capable sites in the stores are discharged (R-PANIC), "
            "and so is every panic-capable site on the parse side (the eager policy compiles every registered partial inside build(): a parser panic would be a build "
            "that fails because of a partial nobody uses — F-LIT64, repaired in 79f547b, was exactly that); the value returned after a cache insert is the cached value itself; "
            "name lists in 'unknown partial' errors are sorted as a whole before they are shown (R-LISTORDER); compiled renderables hold no interior-mutable state (R-FREEZE), "
            "so an object shared by eager/lazy behaves like the fresh one on-demand builds. "
            "NOT decided: observational equivalence of the policies on every scenario."
        ),
        "trusted": TRUST_COMMON,
        "note": "structural agreement of sibling implementations, not a differential proof",
    },
    "C20": {
        "run": c20,
        "level": "other",
        "design_ref": "DESIGN.md §3 R-AUTO(R-WITNESS), R-FREEZE, R-STATICS, R-LOCK, R-REENTRANT; §4 C20",
        "technique": "rustc trait-solver facts (Send/Sync) + deep-immutability walk + single-critical-section and no-reentrancy CFG/call-graph rules",
        "explanation": (
            "Decided: Parser, Template, Language, Box<dyn Renderable>, Arc<dyn PartialStore+Send+Sync> are Send+Sync and the per-render runtime is not Sync "
            "(rustc's trait solver on /repo's types); Send+Sync are supertraits of the plugin traits; no hand-written unsafe impl/blocks; the only shared "
            "mutable state reachable from shared objects is LazyStore.cache; it is locked exactly once per lookup with check, compile and insert inside "
            "that one critical section and no callee under the lock can reach Mutex::lock or a store lookup (no self-deadlock); no RefCell guard is live "
            "across a call that can re-borrow; every parser panic site that could poison the lock is discharged by C01's census (F-LIT64, the one site that was not, is repaired: 79f547b). "
            "No library function calls a process-global setter of a dependency or std (R-GLOBALSET: pest::set_call_limit, env, panic hook ..). NOT decided: schedule-level equivalence."
        ),
        "trusted": TRUST_COMMON + ["rustc trait solver", "std Mutex/Arc semantics"],
        "note": "data-race freedom is rustc's own guarantee given Send/Sync facts and no unsafe; lock discipline is checked on MIR",
    },
    "C11": {
        "run": c11,
        "level": "other",
        "design_ref": "DESIGN.md §3 R-FWD(cmp), R-MIRROR, R-ORDERINS; §4 C11",
        "technique": "delegation census of all PartialEq/PartialOrd impls of the model types; discriminant-pair tables of scalar_eq/scalar_cmp extracted from MIR and checked for symmetry and eq/cmp agreement; iterator-consumer typestate for hash-ordered iterators",
        "explanation": (
            "Decided from MIR for all values: every PartialEq/PartialOrd impl of Value, ValueCow, ValueViewCmp, ScalarCow (78) overrides only eq/partial_cmp and "
            "delegates to value_eq/scalar_eq resp. value_cmp/scalar_cmp (so != is the negation and <,<=,>,>= come from one function); for every ordered "
            "pair of scalar kinds the arms selected in scalar_eq and scalar_cmp are mirror images (same conversions and comparison on both argument orders) "
            "and, wherever scalar_cmp orders a pair, scalar_eq uses the same numeric/date conversions; value_eq/value_cmp query both operands alike; "
            "the array/object views of both operands of value_cmp are consumed alike (duality); object entry iterators (hash order) feed only order-insensitive "
            "consumers or are key-sorted first; DateTime/Date compare through derives on the wrapped time types (== and <,> agree); uniq/case identity and the "
            "template operators go through ValueViewCmp only. "
            "Every ordering call in scalar_cmp compares something of lhs with something of rhs in that order, or reverses (R-ORIENT); `contains` on arrays uses ValueViewCmp == "
            "(R-CONTAINS). NOT decided: reflexivity, numeric equality of particular values, NaN, date instants."
        ),
        "trusted": TRUST_COMMON,
        "note": "symmetry/coherence is decided at the level of which operations each kind pair uses, not their numeric results",
    },
    "C14": {
        "run": c14,
        "level": "other",
        "design_ref": "DESIGN.md §3 R-CMPTOTAL, R-EQONLY, R-ORDERINS; §4 C14",
        "technique": "comparator-totality analysis of every sort_by in the library crates (partial_cmp on a non-Ord type defaulted to a constant), stable-sort census, equality-only identity rule for uniq/case",
        "explanation": (
            "Decided from MIR: array filters use the stable slice::sort_by; each comparator is followed through its helpers to the partial_cmp calls that "
            "produce its result and is total only if those are on Ord types or not defaulted; uniq and case/when decide identity through ValueViewCmp == "
            "only (no rendering- or hash-keyed shortcut), where by ValueViewCmp == / Truthy; reverse/first/last/concat/compact/join use their own operations; object "
            "comparison is independent of hash order. "
            "The scalar comparator the sort is built on is mirror-symmetric, agrees with equality on conversions and is correctly oriented (R-MIRROR, R-ORIENT). "
            "NOT decided: permutation/multiset/idempotence laws, map/where/concat contents."
        ),
        "trusted": TRUST_COMMON,
        "note": "the known finding F-SORT (non-total comparator) is reported as KNOWN-FINDING; any other comparator defect still alarms",
    },
    "C15": {
        "run": c15,
        "level": "other",
        "design_ref": "DESIGN.md §3 R-ARITH, R-DIV, R-MATH; §4 C15",
        "technique": "interprocedural taint of template-controlled integers into MIR overflow/division asserts and abs/pow/rem calls; dominating zero-guard rule; per-filter census of the integer path",
        "explanation": (
            "Decided from MIR for all operands: in filters/math.rs no unchecked + - * / % abs/pow is applied to a template-controlled integer (every "
            "Overflow/DivisionByZero/RemainderByZero assert and wrapping_rem call is either absent, untainted or dominated by a zero test, including the "
            "closure idiom where the enclosing function tests the same accessor's payload against 0 before building the closure); every filter converts "
            "both operands with to_integer before any float path, performs exactly one exact integer operation of the expected kind (checked_add/sub/mul/div, "
            "wrapping_rem, max, min, checked_abs) and never routes the integer path through f64; divided_by and modulo use the truncating pair. "
            "A string operand becomes a number by `parse::<i64>()`/`parse::<f64>()` alone, with no other condition in the string arm (R-COERCE). "
            "NOT decided: IEEE results, rounding direction and ties of ceil/floor/round, what str::parse accepts."
        ),
        "trusted": TRUST_COMMON + ["ledger/arith.tsv (3 reviewed lines, printed in the evidence)"],
        "note": "exactness is argued from which operations are used, not by evaluating them",
    },
    "C01": {
        "run": c01,
        "level": "other",
        "design_ref": "DESIGN.md §3 R-GRAMMAR, R-PANIC, R-ARITY, R-CLOSED, R-ARITH, R-NODROP, R-TERM, R-PARSECOST; §4 C01",
        "technique": "panic-site census over the call graph reachable from the parser (MIR) with every site discharged by a pest-grammar fact (pest_meta AST), a dominating guard, another rule or a reviewed ledger line; grammar totality of the lax rule",
        "explanation": (
            "Decided for all input strings: the lax top-level grammar rule has the shape SOI ~ (A | !E ~ ANY)* ~ EOI with E an alternative of A, so it matches every "
            "input; every expect/unwrap/panic!/unreachable!/index/BoundsCheck/overflow site reachable from parse() and from every ParseTag/ParseBlock/ParseFilter "
            "is enumerated from MIR and discharged: child-presence expects by always-present-children facts of the grammar, unreachable! arms by coverage of the "
            "grammar's alternatives, literal conversions by the literal rules' languages, defensive rule panics by their exact reviewed caller sets, string slices "
            "by boundary provenance, arithmetic by taint; every tag/block parser rejects leftover arguments on every Ok path and calls assert_empty only after its "
            "block reader finished; no block parser can return to its element reader with an element neither parsed nor consumed as a delimiter tag (R-NODROP: rejected "
            "text cannot be skipped silently); every loop in parse-reachable workspace code pulls from a finite iterator / pest-backed reader (R-TERM) and no "
            "parse-reachable code consumes a Range over the liquid integer type (R-PARSECOST: a literal cannot drive parse-time work). NOT decided: recursion depth, "
            "termination inside pest/std iterators, message content, panics inside pest. The out-of-range integer literal (F-LIT64) is repaired (79f547b) and its site discharged by the D-PRECHECK class."
        ),
        "trusted": TRUST_COMMON + ["pest_meta grammar front end", "ledger/panic_sites.tsv L-REASON/D-LOCAL lines (listed in evidence)"],
        "note": "a census with obligations: new or unjustified panic-capable sites alarm; reasons marked L-REASON/D-LOCAL are human-reviewed, not machine-checked",
    },
    "C02": {
        "run": c02,
        "level": "other",
        "design_ref": "DESIGN.md §3 R-PANIC, R-ARITH, R-DIV, R-STRSLICE, R-UTF8SINK, R-REENTRANT, R-CMPTOTAL, R-TERM; §4 C02",
        "technique": "panic-site census over the render-reachable call graph; taint of template-controlled integers into overflow/division sites; character-boundary provenance of every str slice; RefCell guard live-range vs re-borrow reachability",
        "explanation": (
            "Decided for all templates and data: every panic-capable site reachable from any Renderable/Filter/Runtime/ValueView method is enumerated and discharged "
            "(as for C01); no unchecked arithmetic or division on a template-controlled integer without a dominating guard; every byte-range str index uses bounds "
            "that come from char_indices/len/find/len_utf8 (never subtraction, never an inclusive end); only write_fmt reaches the sink; no user unsafe; no RefCell "
            "guard is live across a call that can re-borrow; sort comparators are total (known finding F-SORT); every loop in render-reachable workspace code pulls "
            "from a finite iterator or is in the termination ledger with its variant (R-TERM: a hand-written scan loop whose progress depends on a template value is "
            "reported). NOT decided: termination inside std/dependency iterators, memory cost of range materialisation, values above the quantifier's bounds, panics "
            "inside dependencies."
        ),
        "trusted": TRUST_COMMON + ["ledger/panic_sites.tsv, ledger/arith.tsv reviewed lines"],
        "note": "see C01 note; width/size bounds of the quantifier are taken as given (OUT-OF-DOMAIN lines)",
    },
    "C03": {
        "run": c03,
        "level": "other",
        "design_ref": "DESIGN.md §3 R-GRAMMAR(b,c), R-VERBATIM, R-BLOCKBODY, R-NODROP, R-BODYKEEP; §4 C03",
        "technique": "structural matching of the pest grammar AST (whitespace class, trim delimiters, Raw rule) + MIR shape of the text/raw/comment renderables and of the comment/raw block parsers",
        "explanation": (
            "Decided: WHITESPACE accepts exactly space, tab, LF, CR(LF); each of the four delimiters tries its trimming form first with WHITESPACE* on the outer side "
            "only; Raw checks every character against the start delimiters; Tag/Expression have no other whitespace consumption; Text and RawT print exactly one field "
            "of self with one sink write and call nothing else; Comment::render_to makes no call; the comment parser interprets nested tags only; the raw parser "
            "stores escape_liquid(false) unmodified; escape_liquid closes the block only on an end tag without further tokens; only write_fmt (never a bare write) "
            "carries text to the sink; block parsers cannot skip an element they read (R-NODROP) nor remove/replace/reorder parsed elements before the template is "
            "built (R-BODYKEEP); Template::render returns exactly the bytes of one render_to into a fresh per-call buffer (R-VERBATIM.buffered). NOT decided: "
            "byte-for-byte equality for all texts, escape_liquid's span arithmetic."
        ),
        "trusted": TRUST_COMMON + ["pest_meta grammar front end; pest matching semantics"],
        "note": "grammar shape rules alarm on any reformulation of the delimiter rules (DESIGN §6 residual risk)",
    },
    "C07": {
        "run": c07,
        "level": "other",
        "design_ref": "DESIGN.md §3 R-LOUD, R-OVERLAY, R-VERBATIM, R-PANIC(G-*); §4 C07",
        "technique": "must-propagate tracking of every failing lookup on the output path; CFG edge rule for the first/last/size overlay; grammar-language facts for literal conversions",
        "explanation": (
            "Decided: an output tag resolves through Expression::evaluate -> Variable::evaluate -> Runtime::get -> find, each error propagated with `?` and never the "
            "optional lookups; an integer index goes only to ArrayView::get, names to the overlay, object `size` is a fallback of the real key; each lookup step consumes "
            "one path element; index conversion neither clamps nor wraps; string literals are literal[1..len-1] verbatim and numeric/boolean literals are token.parse() with "
            "no defaulting or sign surgery; float/bool literal conversions cannot fail (grammar language); every match over literal "
            "Variable::evaluate/try_evaluate push the scalar view of each evaluated index unmodified (R-PATHVERBATIM: no to_integer/ScalarCow::new/to_kstr between "
            "evaluation and Path::push); a missing first/last/element is never defaulted (R-OVERLAY); "
            "kinds covers the grammar's alternatives. NOT decided: negative-index arithmetic, printed form of each literal. F-LIT64 (out-of-range integer literal) is repaired (79f547b)."
        ),
        "trusted": TRUST_COMMON + ["pest_meta grammar front end"],
        "note": "numeric parts (index conversion) are out of reach of static analysis",
    },
    "C16": {
        "run": c16,
        "level": "other",
        "design_ref": "DESIGN.md §3 R-TABLE(entities, URL set, strict decode), R-STRSLICE; §4 C16",
        "technique": "constant tables read from MIR (string constants incl. promoted tables, AsciiSet construction in the const initializer) compared writer-vs-reader; dataflow rule that every result passes the encoder; boundary provenance of escape's slices",
        "explanation": (
            "Decided: escape emits exactly the five entities, mapped from < > ' \" &; escape_once's lookahead table is exactly those entities without the `&` "
            "(including the terminating `;`) and returns the matched prefix's length only; url_encode's set is NON_ALPHANUMERIC minus '-', '.', '_', is the set handed to "
            "utf8_percent_encode, and every non-nil result comes from that call (no bypass); url_decode translates '+', percent-decodes, uses the strict decode_utf8 and "
            "propagates its error; escape's three slices use char_indices/ASCII-guarded bounds; no character count is compared or combined with a byte offset in html.rs/url.rs "
            "(R-UNITMIX). NOT decided: invertibility and idempotence as such, the strip_html regexes."
        ),
        "trusted": TRUST_COMMON + ["percent-encoding crate semantics"],
        "note": "tables and flows, not string-level equalities",
    },
    "C17": {
        "run": c17,
        "level": "other",
        "design_ref": "DESIGN.md §3 R-TABLE(date formats, strftime directives), R-STRSLICE, R-MIRROR; §4 C17",
        "technique": "directive -> calendar-accessor table read off the strftime match (variant-directed regions of the char switch); format-constant agreement between Display/serde writers and the parser; offset pattern constant evaluated against every printable offset",
        "explanation": (
            "Decided: each of the 45 strftime directives is computed from exactly the time::OffsetDateTime accessors its documented meaning needs (e.g. %G/%g/%V from "
            "to_iso_week_date, %U sunday_based_week, %j ordinal); DateTime's Display formats are among the formats parse_date_time accepts and the serde bridge reads what "
            "it writes; the constant pattern that detects a trailing offset recognises every +-HHMM from -1200 to +1445 and no offset-less form; DateTime/Date compare "
            "through the wrapped time types; mixed date arms of scalar_eq/scalar_cmp are mirrored; strftime's str slices are on character boundaries. "
            "Every zero-filled placeholder of strftime.rs is right-aligned (R-FMT.numeric, read off the expanded AST's format_args! nodes: a left-aligned zero fill "
            "turned 5 ms into `500`, fixed as F-FRAC). On every path to the numeric print `value.abs()` either value >= 0 is known or '-' was pushed, with the padding-flag tests correlated (R-SIGN). "
            "NOT decided: padding/width arithmetic, the 12-hour mapping, "
            "calendar arithmetic inside `time`."
        ),
        "trusted": TRUST_COMMON + ["time crate accessors mean what their names say"],
        "note": "which field feeds which directive is decided; how it is padded is not",
    },
    "C13": {
        "run": c13,
        "level": "other",
        "design_ref": "DESIGN.md §3 R-UNIT, R-FOLD, R-SPLITJOIN, R-TRUNC; §4 C13",
        "technique": "unit (bytes vs characters) taint: str::len values flowing into returned sizes, character-iterator skip/take, or comparisons with user-supplied counts; dataflow shape of the filter fold; callee census of split/join",
        "explanation": (
            "Decided: in the string filters, slice and the `.size` overlay no byte length is returned as a size, drives skip/take on a character iterator or is "
            "compared with/subtracted from a user-supplied count (known finding: truncate, whose byte comparison is asserted by an existing unit test); a filter chain "
            "is entry = filter(entry) over self.filters in declaration order; split returns str::split's fields unfiltered and join joins every element (so join "
            "inverts split); truncate returns the input unchanged unless it is longer than the limit itself; size and slice count/cut with chars() (not graphemes/bytes); "
            "each case/strip/replace filter uses its own std operation and not its sibling's; default queries State::DefaultValue. NOT decided: each filter's documented function and the "
            "algebraic laws on all strings."
        ),
        "trusted": TRUST_COMMON,
        "note": "a units discipline, not a specification of each filter",
    },
    "C12": {
        "run": c12,
        "level": "other",
        "design_ref": "DESIGN.md §3 R-FWD(views), R-CAST, R-TABLE(derive keys, truth); §4 C12",
        "technique": "override census + same-name forwarding check over the wrapper impls of ValueView/ObjectView/ArrayView; cast census in the serde bridge; field-set agreement of derive-generated view methods",
        "explanation": (
            "Decided: the wrapper impls (&V, ValueCow, Value, Option<T>; &O; &A) override every trait method whose default would change behaviour (the set of "
            "pure defaults is computed from the trait's own default bodies) and each forwards to the same-named method; no value-changing `as` cast exists in "
            "model/**/ser.rs (integers are narrowed with TryFrom); every derive(ObjectView, ValueView) struct in the workspace has size/keys/iter/contains_key/get/"
            "to_value agreeing on its field set with to_value inserting every field unconditionally; the truthiness table of every kind is the specified one; the serde "
            "bridges of Date/DateTime read exactly the formats they write (no lenient parser). "
            "String, KString, KStringCow and KStringRef answer query_state through the &str implementation (R-SIBLINGS.str). "
            "NOT decided: serde round-trip equality, derive vs serde on user structs with serde attributes, printed forms."
        ),
        "trusted": TRUST_COMMON,
        "note": "agreement of sibling implementations at the level of which method forwards where",
    },
}
