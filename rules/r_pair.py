"""R-PAIR (interrupt protocol) and R-EXCL (exactly one branch) — CFG path rules."""
from mirutil import op_local
from r_wprop import BRANCH, is_adapter
from r_scope import render_calls, runtime_arg_kind

NEXT = "core::iter::traits::iterator::Iterator::next"
IR = "liquid_core::runtime::runtime::InterruptRegister"


def ok_successor(P, fn, bi):
    """Block where execution continues when the Result produced by the call in block bi is Ok,
    following adapters -> Try::branch -> switch(0).  None if the result is returned directly."""
    t = fn.blocks[bi]["t"]
    holder = t["d"][0]
    cur = t["t"]
    for _ in range(40):
        if cur is None:
            return None
        b = fn.blocks[cur]
        # moves
        for st in b["s"]:
            if st[0] == "a" and st[2]["k"] == "use":
                ol = op_local(st[2]["o"])
                if ol and ol[0] == holder and not ol[1] and not st[1][1]:
                    holder = st[1][0]
        tt = b["t"]
        if tt["k"] == "call":
            used = any((op_local(a) or (None,))[0] == holder for a in tt["args"])
            if used:
                f = tt.get("f")
                if f and (is_adapter(f) or f["id"] == BRANCH):
                    holder = tt["d"][0]
                    is_branch = f["id"] == BRANCH
                    cur = tt["t"]
                    if is_branch:
                        # next block switches on the discriminant
                        sb = fn.blocks[cur]
                        if sb["t"]["k"] == "switch":
                            for v, tb in sb["t"]["t"]:
                                if v == 0:
                                    return tb
                        return None
                    continue
                return None
            cur = tt["t"]
        elif tt["k"] in ("goto", "drop", "assert"):
            cur = tt["t"]
        else:
            return None
    return None


def loops(P, fn):
    """Iterator loops: (header block calling Iterator::next, Some-edge target, None-edge target, body region)."""
    out = []
    for hi, t in P.calls(fn):
        if not (t.get("f") and t["f"]["id"] == NEXT):
            continue
        if hi not in P.reach(fn, P.succ(fn)[hi]):
            continue  # not on a cycle
        d = t["d"][0]
        cur = t["t"]
        some = none = None
        for _ in range(6):
            blk = fn.blocks[cur]
            tt = blk["t"]
            if tt["k"] == "switch":
                ol = op_local(tt["o"])
                isd = any(st[0] == "a" and ol and st[1][0] == ol[0] and st[2]["k"] == "discr" and st[2]["p"][0] == d
                          for st in blk["s"])
                if isd:
                    for v, tb in tt["t"]:
                        if v == 0:
                            none = tb
                        elif v == 1:
                            some = tb
                    if some is None:
                        some = tt["else"]
                    if none is None:
                        none = tt["else"]
                break
            if tt["k"] in ("goto", "drop"):
                cur = tt["t"]
            else:
                break
        if some is None:
            continue
        region = P.reach(fn, [some], stop={hi})
        out.append((hi, some, none, region))
    return out


def loop_header(P, fn, bi):
    """Header of the innermost iterator loop whose body contains block bi."""
    best = None
    for h, some, none, region in loops(P, fn):
        if bi in region and (best is None or len(region) < best[1]):
            best = (h, len(region))
    return best[0] if best else None


def return_blocks(fn):
    return [i for i, b in enumerate(fn.blocks) if b["t"]["k"] == "return"]


def calls_named(P, fn, suffix):
    return [bi for bi, t in P.calls(fn) if t.get("f") and (t["f"]["name"].endswith(suffix))]


def returns_call_result(P, g, suffix):
    """g is a thin wrapper: exactly one call named *suffix, and g's return value is that call's result (copies only),
    with no branch between entry and return other than unwinding."""
    cs = [(bi, t) for bi, t in P.calls(g) if t.get("f") and t["f"]["name"].endswith(suffix)]
    if len(cs) != 1:
        return False
    if any(b["t"]["k"] == "switch" for b in g.blocks):
        return False
    vals = {cs[0][1]["d"][0]}
    writes0 = []
    for b in g.blocks:
        for st in b["s"]:
            if st[0] != "a" or st[1][1]:
                continue
            rv = st[2]
            src = op_local(rv["o"]) if rv["k"] == "use" else None
            if st[1][0] == 0:
                writes0.append(src is not None and src[0] in vals and not src[1])
            elif src is not None and src[0] in vals and not src[1]:
                vals.add(st[1][0])
    if cs[0][1]["d"][0] == 0 and not cs[0][1]["d"][1]:
        return not writes0
    return bool(writes0) and all(writes0)


def poll_sites(P, fn, suffix="InterruptRegister::interrupted"):
    """Blocks of fn that poll the interrupt register: direct calls, or calls of a private wrapper returning the poll's result."""
    out = []
    for bi, t in P.calls(fn):
        f = t.get("f")
        if not f:
            continue
        if f["name"].endswith(suffix):
            out.append(bi)
            continue
        g = P.fns.get(f["id"])
        if g is not None and g.kind == "fn" and not g.impl and g.crate == fn.crate and returns_call_result(P, g, suffix):
            out.append(bi)
    return out


def run_template_poll(P, rep, rule="R-PAIR.poll"):
    key = "<liquid_core::runtime::template::Template as liquid_core::runtime::renderable::Renderable>::render_to"
    fn = P.fn_by_key(key)
    rc = render_calls(P, fn)
    if len(rc) != 1:
        rep.viol(rule, "Template::render_to", P.where(fn), "expected one child render_to in the element loop, found %d" % len(rc))
        return
    bi, t = rc[0]
    s = ok_successor(P, fn, bi)
    h = loop_header(P, fn, bi)
    polls = poll_sites(P, fn)
    if s is None or h is None or not polls:
        rep.viol(rule, "Template::render_to", P.where(fn), "element loop / success edge / interrupted() poll not found")
        return
    r = P.reach(fn, [s], stop=set(polls))
    if h in r:
        rep.viol(rule, "Template::render_to poll-skipped", P.where(fn, t["line"]),
                 "the next element can be rendered without polling the interrupt register after the previous one")
        return
    # the poll's `true` edge leaves the loop
    ok = True
    for pb in polls:
        pt = fn.blocks[pb]["t"]
        d = pt["d"][0]
        cur = pt["t"]
        sw = None
        for _ in range(8):
            tt = fn.blocks[cur]["t"]
            if tt["k"] == "switch":
                ol = op_local(tt["o"])
                if ol and ol[0] == d:
                    sw = tt
                break
            if tt["k"] in ("goto", "drop"):
                cur = tt["t"]
            else:
                break
        if sw is None:
            ok = False
            continue
        true_bb = sw["else"]
        if h in P.reach(fn, [true_bb]):
            ok = False
    if not ok:
        rep.viol(rule, "Template::render_to poll-ignored", P.where(fn),
                 "an interrupted() == true result does not leave the element loop")
    else:
        rep.ok(rule, "Template::render_to", P.where(fn), "interrupted() polled after every child; true edge exits the loop")


def check_loop_reset(P, rep, key, label, rule="R-PAIR.reset"):
    fn = P.fn_by_key(key)
    site = label
    body_calls = [(bi, t) for bi, t in render_calls(P, fn) if loop_header(P, fn, bi) is not None]
    if not body_calls:
        rep.viol(rule, site, P.where(fn), "no body render inside a loop found")
        return
    resets = poll_sites(P, fn, "InterruptRegister::reset")
    n = 0
    for bi, t in body_calls:
        n += 1
        h = loop_header(P, fn, bi)
        s = ok_successor(P, fn, bi)
        if s is None:
            rep.viol(rule, site + " success-edge", P.where(fn, t["line"]), "success edge of the body render not found")
            continue
        # the register that is read back must be the one the body could set: when the body is rendered with a scope
        # that owns its registers (SandboxedStackFrame), the reset has to go through that scope, not through the caller's runtime
        from origins import backward_slice
        ra = op_local(t["args"][2]) if len(t["args"]) > 2 else None
        l2 = backward_slice(fn, ra[0])[0] if ra else set()
        own = {l for l in l2 if "SandboxedStackFrame" in P.local_ty(fn, l) and not P.local_ty(fn, l).startswith("&")}
        if own:
            wrong = False
            for rb in resets:
                if rb not in P.reach(fn, [s]):
                    continue
                a0 = op_local(fn.blocks[rb]["t"]["args"][0]) if fn.blocks[rb]["t"]["args"] else None
                l1 = backward_slice(fn, a0[0])[0] if a0 else set()
                if not (l1 & own):
                    wrong = True
            if wrong:
                rep.viol(rule, site + " reset-other-registers", P.where(fn, t["line"]),
                         "the body is rendered with an isolated scope (own registers) but the interrupt is read back from another runtime's "
                         "registers: a break/continue raised in the body is never seen")
                continue
        r = P.reach(fn, [s], stop=set(resets))
        if h in r:
            rep.viol(rule, site + " reset-skipped", P.where(fn, t["line"]),
                     "the next iteration can start without InterruptRegister::reset(): a continue/break would leak into it")
            continue
        if any(x in r for x in return_blocks(fn)):
            rep.viol(rule, site + " reset-skipped-exit", P.where(fn, t["line"]),
                     "the loop can be left after a body render without clearing the interrupt: it would reach the enclosing loop")
            continue
        # Break leaves the loop: find the switch on the payload discriminant
        good = False
        for rb in resets:
            if rb not in P.reach(fn, [s]):
                continue
            d = fn.blocks[rb]["t"]["d"][0]
            # all switches reachable from the reset (before header) whose scrutinee is a discriminant of D(.Some.0)
            region = P.reach(fn, [fn.blocks[rb]["t"]["t"]], stop={h})
            for b2 in region:
                blk = fn.blocks[b2]
                tt = blk["t"]
                if tt["k"] != "switch":
                    continue
                ol = op_local(tt["o"])
                if not ol:
                    continue
                for st in blk["s"]:
                    if st[0] == "a" and st[1][0] == ol[0] and st[2]["k"] == "discr":
                        pl = st[2]["p"]
                        if pl[0] == d and any(p[0] == "f" for p in pl[1]):
                            # payload discriminant: Interrupt::Break is variant 1
                            for v, tb in tt["t"]:
                                if v == 1 and h not in P.reach(fn, [tb], stop=set()):
                                    good = True
                            if tt["else"] is not None and not any(v == 1 for v, _ in tt["t"]):
                                # `[0: .., otherwise: break_bb]`
                                if h not in P.reach(fn, [tt["else"]]):
                                    good = True
        if not good:
            # idiom: `reset() == Some(Interrupt::Break)` (derived PartialEq against a promoted constant)
            import predpath
            for rb in resets:
                if rb not in P.reach(fn, [s]):
                    continue
                d = fn.blocks[rb]["t"]["d"][0]
                for b2, t2 in P.calls(fn):
                    f2 = t2.get("f")
                    if not f2 or f2["id"] not in ("core::cmp::PartialEq::eq", "core::cmp::PartialEq::ne") or len(t2["args"]) != 2:
                        continue
                    sides = []
                    for a in t2["args"]:
                        ol = op_local(a)
                        kind = None
                        if ol:
                            from mirutil import defs_of
                            cur = ol[0]
                            for _ in range(4):
                                ds = defs_of(fn, cur)
                                if len(ds) != 1 or ds[0][0] != "a":
                                    break
                                rv = ds[0][3]
                                if rv["k"] == "ref" and rv["p"][0] == d:
                                    kind = "reset"
                                    break
                                if rv["k"] == "ref":
                                    cur = rv["p"][0]
                                    continue
                                if rv["k"] == "use" and rv["o"][0] == "k":
                                    pc = predpath._promoted_const(P, fn, rv["o"][1])
                                    pid = "%s::{promoted#%s}" % (rv["o"][1].get("uneval"), rv["o"][1].get("promoted")) if isinstance(rv["o"][1], dict) else None
                                    pf = P.fns.get(pid) if pid else None
                                    if pf is not None and any(st[0] == "a" and st[2]["k"] == "agg" and st[2].get("vname") == "Break" for b3 in pf.blocks for st in b3["s"]):
                                        kind = "break-const"
                                    break
                                if rv["k"] == "use" and op_local(rv["o"]):
                                    cur = op_local(rv["o"])[0]
                                    continue
                                break
                        sides.append(kind)
                    if sorted(x or "" for x in sides) != ["break-const", "reset"]:
                        continue
                    r2 = t2["d"][0]
                    for b3, blk in enumerate(fn.blocks):
                        tt = blk["t"]
                        if tt["k"] == "switch" and op_local(tt["o"]) and op_local(tt["o"])[0] == r2:
                            true_edge = [tt["else"]]
                            false_edge = [tb for v, tb in tt["t"] if v == 0]
                            brk = true_edge if f2["id"].endswith("::eq") else false_edge
                            if brk and h not in P.reach(fn, brk):
                                good = True
        if not good:
            rep.viol(rule, site + " break-ignored", P.where(fn, t["line"]), "Interrupt::Break after a body render does not leave the loop")
        else:
            rep.ok(rule, site + " #%d" % n, P.where(fn, t["line"]), "reset() post-dominates the body render before the back-edge/exit; Break exits")


def run_reset(P, rep):
    check_loop_reset(P, rep, "<liquid_lib::stdlib::blocks::for_block::For as liquid_core::runtime::renderable::Renderable>::render_to", "For::render_to")
    check_loop_reset(P, rep, "<liquid_lib::stdlib::tags::render_tag::Render as liquid_core::runtime::renderable::Renderable>::render_to", "Render::render_to(for)")


def run_interrupt_tags(P, rep, rule="R-PAIR.set"):
    """break/continue tags set exactly their own interrupt kind."""
    for ty, variant in (("Break", 1), ("Continue", 0)):
        key = "<liquid_lib::stdlib::tags::interrupt_tags::%s as liquid_core::runtime::renderable::Renderable>::render_to" % ty
        fn = P.fn_by_key(key)
        sets = [t for bi, t in P.calls(fn) if t.get("f") and t["f"]["name"].endswith("InterruptRegister::set")]
        if len(sets) != 1:
            rep.viol(rule, ty, P.where(fn), "expected exactly one InterruptRegister::set, found %d" % len(sets))
            continue
        ol = op_local(sets[0]["args"][1])
        got = None
        if ol:
            for b in fn.blocks:
                for st in b["s"]:
                    if st[0] == "a" and st[1][0] == ol[0] and st[2]["k"] == "agg" and st[2].get("id", "").endswith("::Interrupt"):
                        got = st[2]["variant"]
        setb = [bi for bi, t in P.calls(fn) if t is sets[0]][0]
        skipping = [rb for rb in return_blocks(fn) if rb in P.reach(fn, [0], stop={setb})]
        if got != variant:
            rep.viol(rule, ty, P.where(fn), "the %s tag requests interrupt variant %s" % (ty.lower(), got))
        elif any(b["t"]["k"] == "switch" for b in fn.blocks) or skipping:
            rep.viol(rule, ty + " conditional", P.where(fn),
                     "the %s tag does not set its interrupt unconditionally (there is a branch / a return that skips InterruptRegister::set)" % ty.lower())
        else:
            rep.ok(rule, ty, P.where(fn), "sets Interrupt::%s" % ty)


# ---------------------------------------------------------------------------------------
# R-EXCL


def run_excl_conditional(P, rep, rule="R-EXCL"):
    key = "<liquid_lib::stdlib::blocks::if_block::Conditional as liquid_core::runtime::renderable::Renderable>::render_to"
    fn = P.fn_by_key(key)
    rc = render_calls(P, fn)
    if len(rc) != 2:
        rep.viol(rule, "Conditional branches", P.where(fn), "expected two branch renders, found %d" % len(rc))
        return
    (a, ta), (b, tb) = rc
    if b in P.reach(fn, P.succ(fn)[a]) or a in P.reach(fn, P.succ(fn)[b]):
        rep.viol(rule, "Conditional exclusive", P.where(fn), "both branches can be rendered in one evaluation")
        return
    # the two renders hang off the two edges of one switch on the compare() result
    cmp_calls = [(bi, t) for bi, t in P.calls(fn) if t.get("f") and t["f"]["name"].endswith("Conditional::compare")]
    if len(cmp_calls) != 1:
        rep.viol(rule, "Conditional compare", P.where(fn), "expected one compare() call, found %d" % len(cmp_calls))
        return
    # which field does each branch render?  if_true must be on the true edge
    from origins import SelfOrigins
    from r_fwd import field_names
    so = SelfOrigins(P, fn)
    names = field_names(P, fn)
    s = ok_successor(P, fn, cmp_calls[0][0])
    sw = None
    cur = s
    for _ in range(10):
        if cur is None:
            break
        tt = fn.blocks[cur]["t"]
        if tt["k"] == "switch":
            sw = tt
            break
        if tt["k"] in ("goto", "drop"):
            cur = tt["t"]
        else:
            break
    if sw is None or P.local_ty(fn, op_local(sw["o"])[0]) != "bool":
        rep.viol(rule, "Conditional switch", P.where(fn), "no boolean branch on the condition found")
        return
    false_bb = [tb_ for v, tb_ in sw["t"] if v == 0][0]
    true_bb = sw["else"]
    rt, rf = P.reach(fn, [true_bb]), P.reach(fn, [false_bb])
    for bi, t in rc:
        ol = op_local(t["args"][0])
        o = so.place_origin([ol[0], ol[1]]) if ol else None
        fld = names[o[0]] if o else "?"
        if fld == "if_true" and not (bi in rt and bi not in rf):
            rep.viol(rule, "Conditional polarity", P.where(fn, t["line"]), "`if_true` is not rendered exactly on the true edge")
            return
        if fld == "if_false" and not (bi in rf and bi not in rt):
            rep.viol(rule, "Conditional polarity", P.where(fn, t["line"]), "`if_false` is not rendered exactly on the false edge")
            return
        if fld not in ("if_true", "if_false"):
            rep.viol(rule, "Conditional fields", P.where(fn, t["line"]), "branch renders `%s`" % fld)
            return
    rep.ok(rule, "Conditional", P.where(fn), "if_true on the true edge, if_false on the false edge, mutually unreachable")
    # compare(): result == self.mode (unless is the negation of if)
    cf = P.fn_by_key("<liquid_lib::stdlib::blocks::if_block::Conditional>::compare")
    ops = [st[2] for b_ in cf.blocks for st in b_["s"] if st[0] == "a" and st[2]["k"] == "bin"]
    evals = [t for bi, t in P.calls(cf) if t.get("f") and t["f"]["name"].endswith("Condition::evaluate")]
    if len(evals) == 1 and len(ops) == 1 and ops[0]["op"] == "Eq":
        rep.ok(rule, "Conditional::compare", P.where(cf), "one condition evaluation compared for equality with self.mode")
    else:
        rep.viol(rule, "Conditional::compare", P.where(cf), "compare() is not `evaluate(..)? == self.mode` (ops %s)" % [o["op"] for o in ops])


def run_excl_case(P, rep, rule="R-EXCL"):
    key = "<liquid_lib::stdlib::blocks::case_block::Case as liquid_core::runtime::renderable::Renderable>::render_to"
    fn = P.fn_by_key(key)
    rc = render_calls(P, fn)
    inloop = [(bi, t) for bi, t in rc if loop_header(P, fn, bi) is not None]
    outloop = [(bi, t) for bi, t in rc if loop_header(P, fn, bi) is None]
    if len(inloop) != 1 or len(outloop) != 1:
        rep.viol(rule, "Case shape", P.where(fn), "expected one arm render inside the arm loop and one else render after it (found %d/%d)" % (len(inloop), len(outloop)))
        return
    bi, t = inloop[0]
    h = loop_header(P, fn, bi)
    after = P.reach(fn, P.succ(fn)[bi])
    if h in after:
        rep.viol(rule, "Case first-match", P.where(fn, t["line"]), "after rendering a matching arm the arm loop can continue (more than one branch may render)")
        return
    eb, et = outloop[0]
    if eb in after:
        rep.viol(rule, "Case else-after-arm", P.where(fn, et["line"]), "the else block can render after an arm rendered")
        return
    # the else render is reachable only through the loop's exhausted exit: it is dominated by the header
    if not P.dominates(fn, h, eb):
        rep.viol(rule, "Case else-before-arms", P.where(fn, et["line"]), "the else block can render without all arms having been tried")
        return
    # arm render is guarded by CaseOption::evaluate == true
    ev = [(b2, t2) for b2, t2 in P.calls(fn) if t2.get("f") and t2["f"]["name"].endswith("CaseOption::evaluate")]
    if len(ev) != 1 or not P.dominates(fn, ev[0][0], bi):
        rep.viol(rule, "Case guard", P.where(fn), "arm render is not guarded by one CaseOption::evaluate")
        return
    s = ok_successor(P, fn, ev[0][0])
    sw = fn.blocks[s]["t"] if s is not None else None
    cur = s
    for _ in range(8):
        if cur is None:
            break
        sw = fn.blocks[cur]["t"]
        if sw["k"] == "switch":
            break
        cur = sw.get("t") if sw["k"] in ("goto", "drop") else None
    if not sw or sw["k"] != "switch":
        rep.viol(rule, "Case guard", P.where(fn), "no branch on the arm's evaluation result")
        return
    false_bb = [tb_ for v, tb_ in sw["t"] if v == 0][0]
    if bi in P.reach(fn, [false_bb], stop={h}) or bi not in P.reach(fn, [sw["else"]], stop={h}):
        rep.viol(rule, "Case polarity", P.where(fn, t["line"]), "an arm renders when its test is false")
        return
    rep.ok(rule, "Case", P.where(fn), "first matching arm renders then returns; else only after the arm loop is exhausted")


def run_for_else(P, rep, rule="R-EXCL"):
    key = "<liquid_lib::stdlib::blocks::for_block::For as liquid_core::runtime::renderable::Renderable>::render_to"
    fn = P.fn_by_key(key)
    rc = render_calls(P, fn)
    body = [(bi, t) for bi, t in rc if loop_header(P, fn, bi) is not None]
    els = [(bi, t) for bi, t in rc if loop_header(P, fn, bi) is None]
    if len(body) != 1 or len(els) != 1:
        rep.viol(rule, "For else shape", P.where(fn), "expected one body render in the loop and one else render outside it")
        return
    bb, bt = body[0]
    eb, et = els[0]
    if eb in P.reach(fn, P.succ(fn)[bb]) or bb in P.reach(fn, P.succ(fn)[eb]):
        rep.viol(rule, "For else exclusive", P.where(fn), "the else branch and the loop body can both run in one evaluation")
        return
    # else hangs off the "selected vector is empty" edge: a switch on Vec::len (0 arm), on `len == 0` / `len != 0`,
    # or on Vec::is_empty / `!is_empty`
    tests = [(bi, t, "len") for bi, t in P.calls(fn) if t.get("f") and t["f"]["name"].endswith("Vec::<T, A>::len")]
    tests += [(bi, t, "is_empty") for bi, t in P.calls(fn) if t.get("f") and t["f"]["name"].endswith("Vec::<T, A>::is_empty")]
    ok = False
    for lb, lt, kind in tests:
        cur = lt["t"]
        val = lt["d"][0]
        # polarity: does a true/non-zero... we track (local, meaning) where meaning in {"len", "empty", "nonempty"}
        meaning = "len" if kind == "len" else "empty"
        for _ in range(6):
            b = fn.blocks[cur]
            for st in b["s"]:
                if st[0] != "a" or st[1][1]:
                    continue
                rv = st[2]
                if rv["k"] == "use" and op_local(rv["o"]) and op_local(rv["o"])[0] == val and not op_local(rv["o"])[1]:
                    val = st[1][0]
                elif rv["k"] == "un" and rv.get("op") == "Not" and op_local(rv["a"]) and op_local(rv["a"])[0] == val and meaning != "len":
                    val = st[1][0]
                    meaning = "nonempty" if meaning == "empty" else "empty"
                elif rv["k"] == "bin" and rv["op"] in ("Eq", "Ne", "Gt") and meaning == "len":
                    la = op_local(rv["a"])
                    if la and la[0] == val and rv["b"][0] == "k" and isinstance(rv["b"][1], dict) and rv["b"][1].get("val") == 0:
                        val = st[1][0]
                        meaning = "empty" if rv["op"] == "Eq" else "nonempty"
            tt = b["t"]
            if tt["k"] == "switch":
                ol = op_local(tt["o"])
                if ol and ol[0] == val:
                    zero = [tb for v, tb in tt["t"] if v == 0]
                    other = [tt["else"]] + [tb for v, tb in tt["t"] if v != 0]
                    if meaning in ("len", "nonempty"):
                        empty_edge, full_edge = zero, other
                    else:
                        empty_edge, full_edge = other, zero
                    if meaning == "len" and len(tt["t"]) != 1:
                        break
                    if empty_edge and eb in P.reach(fn, empty_edge) and bb not in P.reach(fn, empty_edge) and eb not in P.reach(fn, full_edge):
                        ok = True
                break
            if tt["k"] in ("goto", "drop"):
                cur = tt["t"]
            else:
                break
    if ok:
        rep.ok(rule, "For else", P.where(fn), "else renders only on the selected-vector-is-empty edge; body only on the other")
    else:
        rep.viol(rule, "For else guard", P.where(fn), "the else branch is not selected by the emptiness of the selected vector (`len() == 0` / `is_empty()`)")


# ---------------------------------------------------------------------------------------
# R-LOOPIDX: loop metadata is computed from a forward enumerate() over the selected elements

def run_loop_index(P, rep, rule="R-LOOPIDX"):
    from origins import backward_slice
    specs = [
        ("<liquid_lib::stdlib::blocks::for_block::For as liquid_core::runtime::renderable::Renderable>::render_to", "ForloopObject"),
        ("<liquid_lib::stdlib::blocks::for_block::TableRow as liquid_core::runtime::renderable::Renderable>::render_to", "TableRowObject"),
        ("<liquid_lib::stdlib::tags::render_tag::Render as liquid_core::runtime::renderable::Renderable>::render_to", "ForloopObject"),
    ]
    for key, obj in specs:
        fn = P.fn_by_key(key)
        site = key.split(" as ")[0].rsplit("::", 1)[-1] + " loop index"
        news = [(bi, t) for bi, t in P.calls(fn) if t.get("f") and t["f"]["name"].endswith(obj + "::new") or
                (t.get("f") and t["f"]["name"].endswith(obj + "::<'p>::new"))]
        if len(news) != 1:
            rep.viol(rule, site, P.where(fn), "expected one %s::new call, found %d" % (obj, len(news)))
            continue
        bi, t = news[0]
        h = loop_header(P, fn, bi)
        if h is None:
            rep.viol(rule, site, P.where(fn), "%s::new is not inside the element loop" % obj)
            continue
        ht = fn.blocks[h]["t"]
        ity = P.tstr(fn.crate, ht["f"]["self_ty"]) if "self_ty" in ht["f"] else "?"
        probs = []
        if not (ity.startswith("core::iter::adapters::enumerate::Enumerate<alloc::vec::into_iter::IntoIter<")):
            probs.append("the element loop iterates %s; index and element must come from a forward enumerate() over the selected vector "
                         "(reversal belongs to the selection step)" % ity.replace("core::iter::adapters::", ""))
        # arg0 = the enumerate index of this iteration, arg1 = len() of the selected vector
        a0 = op_local(t["args"][0])
        locs, calls = backward_slice(fn, a0[0]) if a0 else (set(), [])
        if ht["d"][0] not in locs:
            probs.append("the loop object's index does not derive from the loop's own enumerate() item")
        arith = [st for b in fn.blocks for st in b["s"] if st[0] == "a" and st[1][0] in locs and st[2]["k"] == "bin"
                 and st[2]["op"].replace("WithOverflow", "") in ("Sub", "Add", "Mul", "Rem", "Div")]
        if arith:
            probs.append("the index passed to the loop object is computed (%s) instead of being the enumerate index itself" %
                         sorted({st[2]["op"] for st in arith}))
        a1 = op_local(t["args"][1])
        locs1, calls1 = backward_slice(fn, a1[0]) if a1 else (set(), [])
        if not any(c.get("f") and c["f"]["id"].rsplit("::", 1)[1] == "len" for c in calls1):
            probs.append("the loop object's length is not len() of the selected vector")
        if probs:
            for p in probs:
                rep.viol(rule, site, P.where(fn, t["line"]), p)
        else:
            rep.ok(rule, site, P.where(fn, t["line"]), "%s::new(enumerate index, selected.len()) inside a forward Enumerate<IntoIter> loop" % obj)


# ---------------------------------------------------------------------------------------
# R-ARGFLOW: which field of the construct feeds which parameter

def arg_fields(P, fn, t, k):
    """Names of the fields of `self` that argument k of call t (transitively) derives from."""
    from origins import SelfOrigins, backward_slice
    from r_fwd import field_names
    names = field_names(P, fn)
    so = SelfOrigins(P, fn)
    ol = op_local(t["args"][k]) if len(t["args"]) > k else None
    if not ol:
        return set(), t["args"][k][1].get("val") if len(t["args"]) > k and t["args"][k][0] == "k" else None
    locs, calls = backward_slice(fn, ol[0])
    out = set()
    for l in locs:
        o = so.org.get(l)
        if o:
            out.add(names[o[0]] if o[0] < len(names) else "#%d" % o[0])
    # fields read directly in statements defining those locals
    for b in fn.blocks:
        for st in b["s"]:
            if st[0] == "a" and st[1][0] in locs:
                rv = st[2]
                pl = rv.get("p") or (rv["o"][1] if "o" in rv and rv["o"][0] in ("c", "m") else None)
                if pl:
                    o = so.place_origin(pl)
                    if o:
                        out.add(names[o[0]] if o[0] < len(names) else "#%d" % o[0])
    return out, None


def run_argflow(P, rep, rule="R-ARGFLOW"):
    FB = "liquid_lib::stdlib::blocks::for_block::"
    R = " as liquid_core::runtime::renderable::Renderable>::render_to"
    specs = [
        # (fn key, callee suffix, {arg index: (must include field, must not include fields) | ("const", value)})
        ("<" + FB + "For" + R, "for_block::iter_array", {1: ("limit", {"offset"}), 2: ("offset", {"limit"}), 3: ("reversed", set())}),
        ("<" + FB + "TableRow" + R, "for_block::iter_array", {1: ("limit", {"offset", "cols"}), 2: ("offset", {"limit", "cols"}), 3: ("const", 0)}),
    ]
    for key, callee, args in specs:
        fn = P.fn_by_key(key)
        cs = [t for bi, t in P.calls(fn) if t.get("f") and t["f"]["id"].endswith(callee)]
        site = key.split(" as ")[0].rsplit("::", 1)[-1] + " -> " + callee.rsplit("::", 1)[-1]
        if len(cs) != 1:
            rep.viol(rule, site, P.where(fn), "expected one call of %s, found %d" % (callee, len(cs)))
            continue
        probs = []
        for k, spec in sorted(args.items()):
            flds, cval = arg_fields(P, fn, cs[0], k)
            if spec[0] == "const":
                if cval != spec[1]:
                    probs.append("argument %d must be the constant %s" % (k, spec[1]))
                continue
            need, forbid = spec
            if need not in flds:
                probs.append("argument %d does not come from self.%s (comes from %s)" % (k, need, sorted(flds)))
            if flds & forbid:
                probs.append("argument %d is fed by self.%s" % (k, sorted(flds & forbid)))
        if probs:
            for p in probs:
                rep.viol(rule, site, P.where(fn, cs[0]["line"]), p)
        else:
            rep.ok(rule, site, P.where(fn, cs[0]["line"]), "limit, offset, reversed reach their own parameters")
    # scope contents: which names a loop / partial scope defines
    def str_keys(fn):
        ks = []
        for bi, t in P.calls(fn):
            f = t.get("f")
            if f and f["id"].rsplit("::", 1)[1] == "insert" and "HashMap" in f["name"]:
                ks.append(t)
        return ks
    import r_table
    for key, want in (("<" + FB + "For" + R, {"forloop"}), ("<" + FB + "TableRow" + R, {"tablerow"}),
                      ("<liquid_lib::stdlib::tags::render_tag::Render" + R, {"forloop"})):
        fn = P.fn_by_key(key)
        consts = set(r_table.str_consts(P, fn, with_promoted=False)) & {"forloop", "tablerow", "parentloop", "include"}
        site = key.split(" as ")[0].rsplit("::", 1)[-1] + " scope names"
        if not want <= consts or (consts - want - {"parentloop"}):
            rep.viol(rule, site, P.where(fn), "the per-iteration scope defines %s; expected %s" % (sorted(consts), sorted(want)))
        else:
            rep.ok(rule, site, P.where(fn), "defines %s plus the loop variable" % sorted(want))
    # unless = negated if: Conditional.mode is false for unless, true for if
    IB = "liquid_lib::stdlib::blocks::if_block::"
    adt = P.adts.get(IB + "Conditional")
    if adt is None:
        rep.anchor_missing(rule, "Conditional")
        return
    fnames = [f["name"] for f in adt["variants"][0]["fields"]]
    mi = fnames.index("mode") if "mode" in fnames else None
    modes = {}
    for fn in P.fns.values():
        if not fn.id.startswith(IB) or fn.expn:
            continue
        for b in fn.blocks:
            for st in b["s"]:
                if st[0] == "a" and st[2]["k"] == "agg" and st[2].get("id") == IB + "Conditional" and mi is not None:
                    op = st[2]["ops"][mi]
                    v = op[1].get("val") if op[0] == "k" else "param"
                    modes.setdefault(fn.key, set()).add(v)
    unless = [v for k, v in modes.items() if "UnlessBlock" in k]
    if unless and all(v == {0} for v in unless):
        rep.ok(rule, "unless mode", "-", "UnlessBlock builds Conditional { mode: false }")
    else:
        rep.viol(rule, "unless mode", "-", "UnlessBlock builds Conditional with mode %s; unless must be the negation of if (mode false)" % unless)
    ifm = [v for k, v in modes.items() if "parse_if" in k or "IfBlock" in k]
    if ifm and all(v == {1} for v in ifm):
        rep.ok(rule, "if mode", "-", "if/elsif build Conditional { mode: true }")
    else:
        rep.viol(rule, "if mode", "-", "if builds Conditional with mode %s" % ifm)


# ---------------------------------------------------------------------------------------
# R-RANGE / R-EMPTYOK

def run_range(P, rep, rule="R-RANGE"):
    """An integer range (a..b) is materialised as the inclusive range of its two bounds; a guard comparing the
    bounds for emptiness must be strict (a > b): `>=`/`==` would drop the one-element range (a..a)."""
    fns = P.by_key("<liquid_lib::stdlib::blocks::for_block::Range>::evaluate")
    if len(fns) != 1:
        rep.anchor_missing(rule, "Range::evaluate")
        return
    fn = fns[0]
    from origins import backward_slice
    incl = False
    for b in fn.blocks:
        for st in b["s"]:
            if st[0] == "a" and st[2]["k"] == "agg" and st[2].get("id") == "core::ops::range::RangeInclusive":
                incl = True
        t = b["t"]
        if t["k"] == "call" and t.get("f") and t["f"]["name"].endswith("RangeInclusive::<Idx>::new"):
            incl = True
    probs = []
    if not incl:
        excl = any(st[0] == "a" and st[2]["k"] == "agg" and st[2].get("id") == "core::ops::range::Range" for b in fn.blocks for st in b["s"])
        probs.append("the range is not materialised as an inclusive range of its bounds%s" % (" (a half-open a..b drops the last element)" if excl else ""))
    # comparisons between the two bounds (payloads .0 and .1 of Range::Counted)
    def bound_of(local):
        locs, calls = backward_slice(fn, local)
        fields = set()
        for l in locs:
            for b in fn.blocks:
                for st in b["s"]:
                    if st[0] == "a" and st[1][0] == l:
                        rv = st[2]
                        pl = rv.get("p") or (rv["o"][1] if "o" in rv and rv["o"][0] in ("c", "m") else None)
                        if pl:
                            fs = [p[1] for p in pl[1] if p[0] == "f"]
                            if any(p[0] == "v" for p in pl[1]) and fs:
                                fields.add(fs[-1])
        return fields
    arith = []
    for b in fn.blocks:
        for st in b["s"]:
            if st[0] == "a" and st[2]["k"] == "bin":
                op = st[2]["op"].replace("WithOverflow", "")
                la, lb = op_local(st[2]["a"]), op_local(st[2]["b"])
                if la and lb:
                    fa, fb = bound_of(la[0]), bound_of(lb[0])
                    if fa and fb and fa != fb:
                        if op in ("Ge", "Le", "Eq", "Ne"):
                            probs.append("the bounds are compared with `%s`: a guard for the empty range must be strict, otherwise (n..n) selects nothing" % op)
                        elif op in ("Sub", "Add"):
                            arith.append(op)
    for bi, t in P.calls(fn):
        f = t.get("f")
        if f and f["id"].startswith("core::cmp::Partial") and len(t["args"]) == 2:
            m = f["id"].rsplit("::", 1)[1]
            la, lb = op_local(t["args"][0]), op_local(t["args"][1])
            if la and lb:
                fa, fb = bound_of(la[0]), bound_of(lb[0])
                if fa and fb and fa != fb and m in ("ge", "le", "eq", "ne"):
                    probs.append("the bounds are compared with `%s`: a guard for the empty range must be strict, otherwise (n..n) selects nothing" % m)
    if probs:
        for p in probs:
            rep.viol(rule, "Range::evaluate", P.where(fn), p)
    else:
        rep.ok(rule, "Range::evaluate", P.where(fn), "start..=stop over the evaluated bounds; no non-strict comparison of the bounds")


def _nonempty_edge_targets(P, fn):
    """Targets of switch edges taken exactly when a Vec::len() result is non-zero / is_empty() is false."""
    out = []
    lens = {t["d"][0]: "len" for bi, t in P.calls(fn) if t.get("f") and t["f"]["name"].endswith("Vec::<T, A>::len")}
    lens.update({t["d"][0]: "empty" for bi, t in P.calls(fn) if t.get("f") and t["f"]["name"].endswith("Vec::<T, A>::is_empty")})
    from mirutil import copy_root
    meaning = {}
    for l, k in lens.items():
        meaning[l] = k
    for b in fn.blocks:
        for st in b["s"]:
            if st[0] != "a" or st[1][1]:
                continue
            rv = st[2]
            if rv["k"] == "bin" and rv["op"] in ("Eq", "Ne", "Gt") and rv["b"][0] == "k" and isinstance(rv["b"][1], dict) and rv["b"][1].get("val") == 0:
                la = op_local(rv["a"])
                if la and meaning.get(copy_root(fn, la[0])) == "len":
                    meaning[st[1][0]] = "empty" if rv["op"] == "Eq" else "nonempty"
            elif rv["k"] == "un" and rv.get("op") == "Not":
                la = op_local(rv["a"])
                m = meaning.get(copy_root(fn, la[0])) if la else None
                if m in ("empty", "nonempty"):
                    meaning[st[1][0]] = "nonempty" if m == "empty" else "empty"
    for b in fn.blocks:
        t = b["t"]
        if t["k"] != "switch":
            continue
        ol = op_local(t["o"])
        if not ol or ol[1]:
            continue
        m = meaning.get(ol[0]) or meaning.get(copy_root(fn, ol[0]))
        if not m:
            continue
        zero = [tb for v, tb in t["t"] if v == 0]
        other = [t["else"]] + [tb for v, tb in t["t"] if v != 0]
        if m in ("len", "nonempty"):
            out += other
        elif m == "empty":
            out += zero
    return out


def run_empty_ok(P, rep, rule="R-EMPTYOK"):
    """Between the selection of the window (iter_array) and the element loop nothing can fail: an empty selection
    must reach the else-branch / Ok(()) without an error that depends on loop quantities."""
    FB = "liquid_lib::stdlib::blocks::for_block::"
    R = " as liquid_core::runtime::renderable::Renderable>::render_to"
    for nm in ("For", "TableRow"):
        fn = P.fn_by_key("<" + FB + nm + R)
        sel = [bi for bi, t in P.calls(fn) if t.get("f") and t["f"]["id"].endswith("for_block::iter_array")]
        ls = loops(P, fn)
        body = [(bi, t) for bi, t in render_calls(P, fn) if loop_header(P, fn, bi) is not None]
        if len(sel) != 1 or not body:
            rep.viol(rule, nm, P.where(fn), "selection call / element loop not found")
            continue
        h = loop_header(P, fn, body[0][0])
        # blocks on paths from the selection to the loop header (not through the header)
        region = P.reach(fn, P.succ(fn)[sel[0]], stop={h})
        bad = []
        for bi in sorted(region):
            b = fn.blocks[bi]
            for st in b["s"]:
                if st[0] == "a" and st[1][0] == 0 and not st[1][1] and st[2]["k"] == "agg" and st[2].get("vname") == "Err":
                    bad.append(st[3])
            t = b["t"]
            if t["k"] == "call" and t.get("f"):
                if t["f"]["id"] == "core::ops::try_trait::FromResidual::from_residual" and t["d"][0] == 0:
                    # which call's failure is propagated here?  allow the `?` on the else-branch render (For) only
                    bad.append(t["line"])
                if t["f"]["id"].endswith("::into_err") and t["d"][0] == 0:
                    bad.append(t["line"])
        # an error that can only happen when the selection is known to be non-empty is not a failure of the empty case
        ne_targets = _nonempty_edge_targets(P, fn)
        pred_ = P.pred(fn)
        line_blocks = {}
        for bi in region:
            b = fn.blocks[bi]
            for st in b["s"]:
                if len(st) > 3:
                    line_blocks.setdefault(st[3], set()).add(bi)
            line_blocks.setdefault(b["t"].get("line"), set()).add(bi)
        keep = []
        for l in bad:
            blks = line_blocks.get(l, set())
            if blks and all(any(len(pred_[tb]) == 1 and P.dominates(fn, tb, x) for tb in ne_targets) for x in blks):
                continue
            keep.append(l)
        bad = keep
        # the else render of `for` legitimately propagates its own error: remove lines of render_to `?`
        else_lines = {t["line"] for bi, t in render_calls(P, fn) if loop_header(P, fn, bi) is None}
        bad = [l for l in bad if not any(abs(l - e) <= 3 for e in else_lines)]
        if bad:
            rep.viol(rule, nm, P.where(fn, bad[0]),
                     "an error can be returned after the window was selected and before the element loop (line %s): an empty selection would fail instead of rendering nothing/else" % bad[0])
        else:
            rep.ok(rule, nm, P.where(fn), "no failing exit between iter_array and the element loop")


# ---------------------------------------------------------------------------------------
# R-ATTRLOOP: the loop attributes are recognised in any order

def run_attr_loop(P, rep, rule="R-ATTRLOOP"):
    """ForBlock::parse / TableRowBlock::parse read their attributes in one token loop whose body compares the token with every
    attribute keyword (`limit`, `offset`, `reversed` / `cols`, `limit`, `offset`): no keyword is recognised only at a fixed
    position (which would reject `limit:3 reversed`)."""
    import r_term
    PB = "liquid_core::parser::block::ParseBlock"
    specs = [("ForBlock", {"limit", "offset", "reversed"}), ("TableRowBlock", {"cols", "limit", "offset"})]
    for ty, want in specs:
        fn = P.fn_by_key("<liquid_lib::stdlib::blocks::for_block::%s as %s>::parse" % (ty, PB))
        best = set()
        for h, body in r_term.natural_loops(P, fn):
            def pulls_tokens(b):
                t_ = fn.blocks[b]["t"]
                f_ = t_.get("f") if t_["k"] == "call" else None
                if not f_:
                    return False
                if f_["name"].replace("::<'a>", "").endswith("TagTokenIter::next"):
                    return True
                return f_["id"].endswith("Iterator::next") and "self_ty" in f_ and "TagTokenIter" in P.tstr(fn.crate, f_["self_ty"])
            if not any(pulls_tokens(b) for b in body):
                continue
            strs = set()
            for b in body:
                blk = fn.blocks[b]
                for st in blk["s"]:
                    if st[0] == "a":
                        for k in ("o", "a", "b"):
                            o = st[2].get(k)
                            if isinstance(o, list) and o and o[0] == "k" and isinstance(o[1], dict) and "str" in o[1]:
                                strs.add(o[1]["str"])
                t = blk["t"]
                for a in t.get("args", []) or []:
                    if a[0] == "k" and isinstance(a[1], dict) and "str" in a[1]:
                        strs.add(a[1]["str"])
            if len(strs & want) > len(best & want):
                best = strs
        site = ty + " attributes"
        missing = want - best
        if missing:
            rep.viol(rule, site, P.where(fn), "the attribute loop does not recognise %s: that keyword is only accepted at a fixed position (or not at all)" % sorted(missing))
        else:
            rep.ok(rule, site, P.where(fn), "one token loop recognises %s in any order" % sorted(want))


# ---------------------------------------------------------------------------------------
# R-LOOPIDX.fields: what the loop visits and reports

def run_object_pairs(P, rep, rule="R-LOOPIDX.pairs"):
    """Iterating an object visits `[key, value]`: in get_array's object branch the two elements of the pair are built from
    field 0 (the key) and field 1 (the value) of the iterator's item, in that order."""
    from origins import SelfOrigins, backward_slice
    g = P.fn_by_key("liquid_lib::stdlib::blocks::for_block::get_array")
    site = "get_array object entries"
    found = False
    for c in sorted((c for c in P.fns.values() if c.kind == "closure" and c.root == g.id), key=lambda f: f.id):
        if c.argc < 2 or not P.local_ty(c, 2).startswith("(kstring::"):
            continue
        so = SelfOrigins(P, c, seed={2: (2,)})
        for b in c.blocks:
            for st in b["s"]:
                if st[0] == "a" and st[2]["k"] == "agg" and st[2].get("ak") == "array" and len(st[2]["ops"]) == 2:
                    found = True
                    fields = []
                    for o in st[2]["ops"]:
                        ol = op_local(o)
                        locs = (backward_slice(c, ol[0])[0] | {ol[0]}) if ol else set()
                        fs = set()
                        for l in locs:
                            og = so.place_origin([l, []])
                            if og and len(og) >= 2 and og[0] == 2:
                                fs.add(og[1])
                        fields.append(fs)
                    if fields == [{0}, {1}]:
                        rep.ok(rule, site, P.where(c, st[3]), "pair = [item.0 (key), item.1 (value)]")
                    else:
                        rep.viol(rule, site, P.where(c, st[3]), "the pair handed to the loop is built from item fields %s instead of [key, value]: "
                                 "`kv[0]` / `kv.first` is no longer the key" % [sorted(x) for x in fields])
    if not found:
        rep.viol(rule, site, P.where(g), "no two-element `[key, value]` construction found in the object branch of get_array (not decided)")


def run_col_last(P, rep, rule="R-LOOPIDX.col_last"):
    """TableRowObject::new: `col_last` depends on both the column position and on being the very last cell (`last`): the final cell
    of a short row closes its row, so it is col_last even when the column count was not reached."""
    from origins import backward_slice
    fn = P.fn_by_key("<liquid_lib::stdlib::blocks::for_block::TableRowObject>::new")
    adt = P.adts.get("liquid_lib::stdlib::blocks::for_block::TableRowObject")
    site = "TableRowObject::new col_last"
    if not adt:
        rep.anchor_missing(rule, "TableRowObject")
        return
    names = [f["name"] for f in adt["variants"][0]["fields"]]
    if "col_last" not in names:
        rep.anchor_missing(rule, "TableRowObject.col_last")
        return
    k = names.index("col_last")
    for b in fn.blocks:
        for st in b["s"]:
            if st[0] == "a" and st[2]["k"] == "agg" and st[2].get("id", "").endswith("TableRowObject"):
                ol = op_local(st[2]["ops"][k])
                locs = (backward_slice(fn, ol[0])[0] | {ol[0]}) if ol else set()
                # parameters: 1 = i, 2 = len, 3 = col, 4 = cols
                # (`a || b` is control flow in MIR: the data slice of the result shows the operand that is copied, here `last`;
                # the column comparison is a branch condition and is covered by R-LOOPIDX / F-COLMIN's rule)
                need = {1: "the cell index", 2: "the number of cells"}
                missing = [need[p_] for p_ in (1, 2) if p_ not in locs]
                if missing:
                    rep.viol(rule, site, P.where(fn, st[3]), "col_last does not depend on %s: the last cell of a short row (or of a table narrower than `cols`) "
                             "is not reported as the last of its row" % ", ".join(missing))
                else:
                    rep.ok(rule, site, P.where(fn, st[3]), "col_last takes `last` (i, len) into account")
                return
    rep.viol(rule, site, P.where(fn), "TableRowObject is not built by a struct literal here (not decided)")
