"""Rules over the tag/block parsers: R-ARITY (leftover arguments are rejected), R-CLOSED (a block
is declared exhausted only after its reader said so), comment/raw body handling (C03)."""
from facts import LIB_CRATES
from mirutil import op_local

PT = "liquid_core::parser::tag::ParseTag"
PB = "liquid_core::parser::block::ParseBlock"
FULL_CONSUMERS = {
    "liquid_lib::stdlib::blocks::if_block::parse_condition": "loops on arguments.next() until None",
}


def parse_impls(P):
    out = []
    for fn in sorted(P.fns.values(), key=lambda f: f.key):
        if fn.impl and fn.impl.get("trait") in (PT, PB) and fn.item_name == "parse" and fn.crate in LIB_CRATES:
            out.append(fn)
    return out


def calls_named(P, fn, last):
    return [bi for bi, t in P.calls(fn) if t.get("f") and t["f"]["id"].rsplit("::", 1)[1] == last]


def consumes_all(P, fn, depth=3, seen=None):
    """Blocks of calls that guarantee the argument iterator was exhausted or leftovers rejected."""
    seen = seen or set()
    blocks = []
    if fn.id in seen:
        return blocks
    seen.add(fn.id)
    for bi, t in P.calls(fn):
        f = t.get("f")
        if not f:
            continue
        last = f["id"].rsplit("::", 1)[1]
        if last == "expect_nothing" and "TagTokenIter" in f["name"]:
            blocks.append(bi)
            continue
        for tg in P.callee_targets(t):
            g = P.fns.get(tg)
            if g is None or g.crate not in LIB_CRATES or g.impl:
                continue
            takes_iter = any((op_local(a) and "TagTokenIter" in P.local_ty(fn, op_local(a)[0])) for a in t["args"])
            if not takes_iter:
                continue
            if g.id in FULL_CONSUMERS and full_consumer_ok(P, g):
                blocks.append(bi)
            elif depth > 0 and consumes_all(P, g, depth - 1, seen):
                blocks.append(bi)
    return blocks


def full_consumer_ok(P, g):
    import r_pair
    for bi, t in P.calls(g):
        f = t.get("f")
        st = P.tstr(g.crate, f["self_ty"]) if f and "self_ty" in f else ""
        if f and f["id"].rsplit("::", 1)[1] == "next" and ("TagTokenIter" in f["name"] or "TagTokenIter" in st):
            if bi in P.reach(g, P.succ(g)[bi]):
                return True
    return False


def ok_blocks(fn):
    out = []
    for bi, b in enumerate(fn.blocks):
        for st in b["s"]:
            if st[0] == "a" and st[1][0] == 0 and not st[1][1] and st[2]["k"] == "agg" and st[2].get("id") == "core::result::Result" \
                    and st[2].get("vname") == "Ok":
                out.append(bi)
    return out


def run_arity(P, rep, rule="R-ARITY"):
    n = 0
    for fn in parse_impls(P):
        n += 1
        site = fn.key.split(" as ")[0].lstrip("<").rsplit("::", 1)[-1] + "::parse"
        where = P.where(fn)
        cons = consumes_all(P, fn)
        oks = ok_blocks(fn)
        if not cons:
            rep.viol(rule, site, where, "the tag's argument iterator is never checked for leftovers (expect_nothing / full consumption): extra arguments would be silently accepted")
            continue
        if not oks:
            # result produced by a delegate (e.g. parse_cycle(..).map(..)): the delegate consumed the arguments
            rep.ok(rule, site, where, "delegates to a helper that rejects leftover arguments")
            continue
        bad = [b for b in oks if not any(P.dominates(fn, c, b) for c in cons)]
        if bad:
            rep.viol(rule, site, P.where(fn, fn.blocks[bad[0]]["t"].get("line")),
                     "an Ok(..) return is reachable without passing the leftover-argument check")
        else:
            rep.ok(rule, site, where, "every Ok return is dominated by the leftover-argument check")
    # helpers that build the renderable themselves
    for key in ("liquid_lib::stdlib::tags::cycle_tag::parse_cycle", "liquid_lib::stdlib::blocks::if_block::parse_if"):
        fns = P.by_key(key)
        if len(fns) != 1:
            rep.anchor_missing(rule, key)
            continue
        fn = fns[0]
        cons = consumes_all(P, fn)
        oks = ok_blocks(fn)
        bad = [b for b in oks if not any(P.dominates(fn, c, b) for c in cons)]
        if not cons or bad:
            rep.viol(rule, key.rsplit("::", 1)[1], P.where(fn), "an Ok(..) return is reachable without the leftover-argument check")
        else:
            rep.ok(rule, key.rsplit("::", 1)[1], P.where(fn), "every Ok return is dominated by the leftover-argument check")
    rep.analysed[rule + ".parsers"] = n


CLOSERS = ("next", "parse_all", "escape_liquid", "parse_next")


def run_closed(P, rep, rule="R-CLOSED"):
    for fn in parse_impls(P):
        if fn.impl.get("trait") != PB:
            continue
        site = fn.key.split(" as ")[0].lstrip("<").rsplit("::", 1)[-1] + "::parse"
        asserts = [bi for bi, t in P.calls(fn) if t.get("f") and t["f"]["name"].endswith("TagBlock::<'a, 'b>::assert_empty") or
                   (t.get("f") and t["f"]["id"].rsplit("::", 1)[1] == "assert_empty")]
        closers = [bi for bi, t in P.calls(fn) if t.get("f") and t["f"]["id"].rsplit("::", 1)[1] in CLOSERS and "TagBlock" in t["f"]["name"]]
        # delegates that receive the block reader (parse_if)
        for bi, t in P.calls(fn):
            if t.get("f") and t["f"]["krate"].startswith("liquid") and any(
                    op_local(a) and "TagBlock" in P.local_ty(fn, op_local(a)[0]) for a in t["args"]):
                last = t["f"]["id"].rsplit("::", 1)[1]
                if last not in CLOSERS and last != "assert_empty" and last != "parse":
                    closers.append(bi)
        oks = ok_blocks(fn)
        if not asserts:
            rep.viol(rule, site, P.where(fn), "block parser never calls assert_empty")
            continue
        probs = []
        for a in asserts:
            if not any(P.dominates(fn, c, a) for c in closers):
                probs.append("assert_empty is reachable before the block reader (next/parse_all/escape_liquid) reported the end of the block")
        for b in oks:
            if not any(P.dominates(fn, a, b) for a in asserts):
                probs.append("an Ok(..) return is reachable without assert_empty")
        if probs:
            for p in sorted(set(probs)):
                rep.viol(rule, site, P.where(fn), p)
        else:
            rep.ok(rule, site, P.where(fn), "assert_empty dominated by the block reader; dominates every Ok return")


def _some_tag_parse_propagated(P, fn):
    from mirutil import copy_root
    for bi, t in P.calls(fn):
        f = t.get("f")
        if not f or f["id"].rsplit("::", 1)[1] != "parse" or "Tag" not in f["name"] or "BlockElement" in f["name"]:
            continue
        d = t["d"][0]
        for b2, t2 in P.calls(fn):
            if t2.get("f") and t2["f"]["id"].endswith("Try::branch") and t2["args"]:
                a0 = op_local(t2["args"][0])
                if a0 and (a0[0] == d or copy_root(fn, a0[0]) == d):
                    return True
    return False


def run_comment_raw(P, rep, rule="R-BLOCKBODY"):
    """comment: only tags of the body are parsed (nesting), nothing else is interpreted;
    raw: the body is taken with escape_liquid(false) and stored unmodified."""
    ck = "<liquid_lib::stdlib::blocks::comment_block::CommentBlock as %s>::parse" % PB
    fn = P.fn_by_key(ck)
    bad = []
    tagparse = 0
    for bi, t in P.calls(fn):
        f = t.get("f")
        if not f or not f["krate"].startswith("liquid"):
            continue
        nm = f["name"]
        last = f["id"].rsplit("::", 1)[1]
        if last == "parse" and "Tag" in nm and "BlockElement" not in nm:
            tagparse += 1
        elif last in ("parse", "parse_pair", "parse_all", "parse_next", "into_renderable") or "BlockElement" in nm and last == "parse":
            bad.append(nm)
    if bad:
        rep.viol(rule, "CommentBlock::parse", P.where(fn),
                 "the comment body is interpreted through %s: text / output tags inside a comment must be skipped, only nested tags are parsed" % sorted(set(bad)))
    elif tagparse < 1:
        rep.viol(rule, "CommentBlock::parse", P.where(fn), "nested tags are not parsed (comment nesting / raw inside comment would break)")
    elif not _some_tag_parse_propagated(P, fn):
        rep.viol(rule, "CommentBlock::parse nested-comment", P.where(fn),
                 "no Tag::parse result is propagated with `?`: the error of a nested `{% comment %}` (wrong arguments, mis-nested end tag) is swallowed and the "
                 "outer comment then closes on the inner one's end tag — malformed nesting is accepted")
    else:
        rep.ok(rule, "CommentBlock::parse", P.where(fn), "parses nested tags only (%d Tag::parse sites); other elements are skipped" % tagparse)
    rk = "<liquid_lib::stdlib::blocks::raw_block::RawBlock as %s>::parse" % PB
    fn = P.fn_by_key(rk)
    esc = [t for bi, t in P.calls(fn) if t.get("f") and t["f"]["id"].rsplit("::", 1)[1] == "escape_liquid"]
    ok = len(esc) == 1 and esc[0]["args"][1][0] == "k" and esc[0]["args"][1][1].get("val") == 0
    transforms = [t["f"]["name"] for bi, t in P.calls(fn) if t.get("f") and t["f"]["id"].rsplit("::", 1)[1] in
                  ("trim", "trim_start", "trim_end", "replace", "to_lowercase", "to_uppercase", "trim_matches", "strip_prefix", "strip_suffix", "lines")]
    if not ok:
        rep.viol(rule, "RawBlock::parse", P.where(fn), "raw body is not taken with escape_liquid(false)")
    elif transforms:
        rep.viol(rule, "RawBlock::parse", P.where(fn), "raw body passes through %s" % transforms)
    else:
        rep.ok(rule, "RawBlock::parse", P.where(fn), "body = escape_liquid(false).to_owned(), stored unmodified")


def run_escape_span(P, rep, rule="R-BLOCKBODY"):
    """escape_liquid returns the text from the start of the first body element to the END of the last element before the
    closing tag: the two positions handed to `Position::span` derive from `Span::start_pos` and `Span::end_pos` of body
    elements only.  The grammar gives the blanks in front of `{%-` to the closing tag's own span, so computing the end from
    the closer (its start, a sub-span, an offset) puts whitespace back that the trim marker removes."""
    from origins import backward_slice
    fns = P.by_key("<liquid_core::parser::parser::TagBlock>::escape_liquid")
    if len(fns) != 1:
        rep.anchor_missing(rule, "TagBlock::escape_liquid (span)")
        return
    fn = fns[0]
    spans = [t for bi, t in P.calls(fn) if t.get("f") and t["f"]["id"].rsplit("::", 1)[1] == "span" and "Position" in t["f"]["name"]]
    if len(spans) != 1:
        rep.viol(rule, "escape_liquid span", P.where(fn), "expected one Position::span call building the body, found %d: re-derive" % len(spans))
        return
    t = spans[0]
    probs = []
    for which, arg, want in (("start", t["args"][0], "start_pos"), ("end", t["args"][1], "end_pos")):
        ol = op_local(arg)
        locs, calls = backward_slice(fn, ol[0]) if ol else (set(), [])
        lasts = {c["f"]["id"].rsplit("::", 1)[1] for c in calls if c.get("f")}
        if want not in lasts:
            probs.append("the %s of the body does not come from Span::%s" % (which, want))
        extra = lasts - {"start_pos", "end_pos", "as_span", "expect", "unwrap", "clone", "next", "as_ref", "deref"}
        if extra - ({"end_pos"} if which == "start" else {"start_pos"}) or (which == "end" and "start_pos" in lasts) or (which == "start" and "end_pos" in lasts):
            probs.append("the %s of the body is computed through %s, not taken from a body element's span" % (which, sorted(extra | (lasts & {"start_pos", "end_pos"}) - {want})))
        for b in fn.blocks:
            for st in b["s"]:
                if st[0] == "a" and st[1][0] in locs and st[2]["k"] == "bin":
                    probs.append("the %s of the body involves arithmetic (%s)" % (which, st[2]["op"]))
    if probs:
        rep.viol(rule, "escape_liquid span", P.where(fn, t["line"]), "; ".join(sorted(set(probs))) +
                 ": the verbatim body must end where the last element before the closing tag ends (the closing tag's span owns the blanks a `{%-` trims)")
    else:
        rep.ok(rule, "escape_liquid span", P.where(fn, t["line"]), "body = first element's start_pos .. previous element's end_pos")


def run_escape_closer(P, rep, rule="R-BLOCKBODY"):
    """escape_liquid closes the block only on an end tag WITHOUT further tokens (`{% endraw x %}` inside a raw body is text)."""
    fns = P.by_key("<liquid_core::parser::parser::TagBlock>::escape_liquid")
    if len(fns) != 1:
        rep.anchor_missing(rule, "TagBlock::escape_liquid")
        return
    fn = fns[0]
    from r_fwd import field_names
    from origins import SelfOrigins
    names = field_names(P, fn)
    so = SelfOrigins(P, fn)
    ci = names.index("closed") if "closed" in names else None
    sets = []
    for bi, b in enumerate(fn.blocks):
        for st in b["s"]:
            if st[0] == "a" and st[1][1] and so.place_origin(st[1]) == (ci,) and st[2]["k"] == "use" and st[2]["o"][0] == "k" and st[2]["o"][1].get("val") == 1:
                sets.append(bi)
    if not sets:
        rep.viol(rule, "escape_liquid closer", P.where(fn), "the place where the block is marked closed was not found")
        return
    ok = True
    for sb in sets:
        guarded = False
        for cb, t in P.calls(fn):
            f = t.get("f")
            if f and f["name"].endswith("Option::<T>::is_none") and P.dominates(fn, cb, sb):
                # the set must be on the true edge
                cur = t["t"]
                tt = fn.blocks[cur]["t"]
                if tt["k"] == "switch":
                    fb = [x for v, x in tt["t"] if v == 0]
                    if fb and sb not in P.reach(fn, fb, stop={cur}):
                        guarded = True
        ok = ok and guarded
    if ok:
        rep.ok(rule, "escape_liquid closer", P.where(fn), "the block closes only on an end tag with no further tokens (next().is_none())")
    else:
        rep.viol(rule, "escape_liquid closer", P.where(fn),
                 "an end-tag look-alike that carries arguments closes the block: markup-looking text inside raw would end the raw body early")


def run_filter_arity(P, rep, rule="R-ARITY.filters"):
    """Derive-generated argument binders reject excess positional and unknown keyword arguments:
    every FilterParameters::from_args and every parameterless ParseFilter::parse contains both traps
    (an extra positional.next() and a keyword.next(), each leading to an Error)."""
    from collections import Counter
    FP = "liquid_core::parser::filter::FilterParameters"
    PF = "liquid_core::parser::filter::ParseFilter"
    n1 = n2 = 0
    for fn in sorted(P.fns.values(), key=lambda f: f.key):
        if fn.crate not in LIB_CRATES or not fn.impl:
            continue
        tr = fn.impl.get("trait")
        if tr == FP and fn.item_name == "from_args":
            n1 += 1
            c = Counter(t["f"]["id"].rsplit("::", 1)[1] for bi, t in P.calls(fn) if t.get("f"))
            tj = P.ty(fn.crate, fn.impl["self"])
            adt = P.adts.get(tj.get("id")) if tj["k"] == "adt" else None
            nf = len(adt["variants"][0]["fields"]) if adt else 0
            site = fn.key.split(" as ")[0].lstrip("<").rsplit("::", 1)[-1] + "::from_args"
            if c["with_msg"] < 2 or c["next"] < nf + 2:
                rep.viol(rule, site, P.where(fn),
                         "argument binder has %d error exits and %d next() calls for %d parameters: the trap for excess positional or unknown keyword arguments is missing"
                         % (c["with_msg"], c["next"], nf))
            else:
                rep.ok(rule, site, P.where(fn), "%d parameters, next() x%d, both traps present" % (nf, c["next"]))
        elif tr == PF and fn.item_name == "parse":
            c = Counter(t["f"]["id"].rsplit("::", 1)[1] for bi, t in P.calls(fn) if t.get("f"))
            site = fn.key.split(" as ")[0].lstrip("<").rsplit("::", 1)[-1] + "::parse"
            if c["from_args"]:
                n2 += 1
                rep.ok(rule, site, P.where(fn), "delegates to FilterParameters::from_args")
            else:
                n2 += 1
                if c["next"] < 2 or c["with_msg"] < 2:
                    rep.viol(rule, site, P.where(fn), "a parameterless filter accepts arguments silently (next() x%d, error exits %d)" % (c["next"], c["with_msg"]))
                else:
                    rep.ok(rule, site, P.where(fn), "rejects positional and keyword arguments")
    rep.analysed[rule + ".from_args"] = n1
    rep.analysed[rule + ".parse"] = n2


# ---------------------------------------------------------------------------------------
# R-NODROP: an element taken from the block reader is parsed (or consumed as a delimiter tag)

NODROP_EXEMPT = {
    # one line of reason per exception
    "<liquid_lib::stdlib::blocks::comment_block::CommentBlock as %s>::parse" % PB:
        "a comment discards its body by contract (R-BLOCKBODY checks what it may and may not parse)",
}
CONSUMERS = ("BlockElement::parse", "Tag::parse", "Tag::into_tokens", "Tag::tokens", "TagBlock::parse_all")


def run_nodrop(P, rep, rule="R-NODROP"):
    """Every loop `while let Some(element) = tokens.next()?` hands each element to BlockElement::parse / Tag::parse,
    or consumes it as a delimiter tag (into_tokens / parse_all); no path returns to the reader with the element
    silently dropped (dropped text would be accepted without ever being checked)."""
    from r_pair import ok_successor
    n = 0
    for fn in sorted(P.fns.values(), key=lambda f: f.id):
        if fn.crate not in ("liquid_core", "liquid_lib") or "::test" in fn.id:
            continue
        nexts = [(bi, t) for bi, t in P.calls(fn) if t.get("f") and t["f"]["name"].endswith("TagBlock::<'a, 'b>::next")
                 or (t.get("f") and t["f"]["name"].endswith("TagBlock::next"))]
        if not nexts:
            continue
        for k, (bi, t) in enumerate(nexts):
            site = "%s next#%d" % (fn.key, k)
            if fn.key in NODROP_EXEMPT:
                rep.ok(rule, site, P.where(fn, t["line"]), "exempt: " + NODROP_EXEMPT[fn.key])
                continue
            n += 1
            s = ok_successor(P, fn, bi)
            if s is None:
                rep.viol(rule, site + " success-edge", P.where(fn, t["line"]), "success edge of TagBlock::next not found")
                continue
            cons = {b2 for b2, t2 in P.calls(fn) if t2.get("f") and any(c in t2["f"]["name"].replace("::<'a, 'b>", "").replace("::<'a>", "") for c in CONSUMERS)}
            r = P.reach(fn, [s], stop=cons)
            if bi in r:
                rep.viol(rule, site + " dropped", P.where(fn, t["line"]),
                         "an element read from the block can be skipped: a path returns to TagBlock::next without BlockElement::parse / "
                         "Tag::parse / into_tokens / parse_all — text on that path is accepted without being checked")
            else:
                rep.ok(rule, site, P.where(fn, t["line"]), "every path back to the reader passes %s" % "/".join(sorted({
                    P.fns and fn.blocks[b2]["t"]["f"]["id"].rsplit("::", 1)[1] for b2 in cons})))
    rep.analysed[rule + ".readers"] = n


# ---------------------------------------------------------------------------------------
# R-BODYKEEP: parsed body elements are kept, in order

BODY_SHRINK = ("clear", "truncate", "retain", "retain_mut", "pop", "remove", "swap_remove", "drain", "dedup", "dedup_by", "dedup_by_key",
               "split_off", "reverse", "swap", "rotate_left", "rotate_right", "sort_by", "sort_by_key", "insert", "extract_if", "take", "replace")


def run_bodykeep(P, rep, rule="R-BODYKEEP"):
    """A vector of parsed elements (Vec<Box<dyn Renderable>>) is only created, pushed to, extended and moved into a
    Template: nothing removes, reorders or replaces parsed elements (e.g. a 'blank body' shortcut dropping whitespace text)."""
    n = 0
    bad = 0
    for fn in sorted(P.fns.values(), key=lambda f: f.id):
        if fn.crate not in ("liquid_core", "liquid_lib", "liquid") or "::test" in fn.id:
            continue
        k = 0
        for bi, t in P.calls(fn):
            f = t.get("f")
            if not f or not t["args"]:
                continue
            hit = False
            for a in t["args"][:1]:
                ol = op_local(a)
                if ol:
                    ty = P.local_ty(fn, ol[0])
                    if "Vec<alloc::boxed::Box<dyn liquid_core::runtime::renderable::Renderable" in ty and ty.lstrip("&mut ").startswith("alloc::vec::Vec<"):
                        hit = True
            if not hit:
                continue
            n += 1
            last = f["id"].rsplit("::", 1)[1]
            if last in BODY_SHRINK:
                bad += 1
                rep.viol(rule, "%s %s#%d" % (fn.key, last, k), P.where(fn, t["line"]),
                         "`%s` on a vector of parsed body elements: parsed text/elements can be dropped, replaced or reordered before the template is built" % last)
                k += 1
    if not bad:
        rep.ok(rule, "element vectors", "-", "%d uses of Vec<Box<dyn Renderable>> in parser/block code; none removes, replaces or reorders elements" % n)
    rep.count(rule + ".uses", n)


# ---------------------------------------------------------------------------------------
# R-KEEPVALS: every value of a `when` list is kept, in order

def run_when_values(P, rep, rule="R-KEEPVALS"):
    """case_block::parse_condition: every successfully parsed value reaches Vec::push before the next token is read or the
    list is returned; nothing removes or reorders values afterwards (`when a, b` must test a and b, whatever their values)."""
    from r_pair import return_blocks
    fn = P.fn_by_key("liquid_lib::stdlib::blocks::case_block::parse_condition")
    vals = [(bi, t) for bi, t in P.calls(fn) if t.get("f") and t["f"]["id"].rsplit("::", 1)[1] == "expect_value"]
    # the value is put into the collection: push, or the `vec![v]` / collect forms
    pushes = {bi for bi, t in P.calls(fn) if t.get("f") and (t["f"]["id"].rsplit("::", 1)[1] in ("push", "extend", "from_iter", "collect", "extend_one")
                                                  or "into_vec" in t["f"]["id"].rsplit("::", 1)[1])}
    resid = {bi for bi, t in P.calls(fn) if t.get("f") and t["f"]["id"].endswith("FromResidual::from_residual")}
    heads = {bi for bi, t in P.calls(fn) if t.get("f") and t["f"]["id"].rsplit("::", 1)[1] in ("next", "expect_next", "expect_nothing")}
    if not vals or not pushes:
        rep.viol(rule, "parse_condition shape", P.where(fn), "expected expect_value / Vec::push calls, found %d / %d" % (len(vals), len(pushes)))
        return
    rets = set(return_blocks(fn))
    for k, (bi, t) in enumerate(vals):
        site = "parse_condition value#%d" % k
        r = P.reach(fn, [t["t"]], stop=pushes | resid)
        lost = sorted((r & rets) | (r & heads))
        if lost:
            rep.viol(rule, site, P.where(fn, t["line"]),
                     "a parsed `when` value can be dropped: a path reaches %s without Vec::push" % ("the return" if r & rets else "the next token read"))
        else:
            rep.ok(rule, site, P.where(fn, t["line"]), "every success path pushes the value before reading on / returning")
    bad = []
    for bi, t in P.calls(fn):
        f = t.get("f")
        if f and t["args"]:
            ol = op_local(t["args"][0])
            if ol and "Vec<liquid_core::runtime::expression::Expression>" in P.local_ty(fn, ol[0]) and f["id"].rsplit("::", 1)[1] in BODY_SHRINK + ("contains",):
                bad.append((t["line"], f["id"].rsplit("::", 1)[1]))
    for line, nm in bad:
        rep.viol(rule, "parse_condition %s" % nm, P.where(fn, line), "`%s` on the list of `when` values: values are compared/removed at parse time" % nm)


# ---------------------------------------------------------------------------------------
# R-UNCLOSED: running out of input inside a block is an error

def run_unclosed(P, rep, rule="R-UNCLOSED"):
    """TagBlock::next: when the shared element iterator is exhausted (a nested block already consumed EOI) or yields EOI, the only
    way out is an Err return — never Ok(None)/Ok(Some): an unclosed block must be reported even when an enclosing block (comment)
    ignores the nested error."""
    from kreach import kreach
    from origins import SelfOrigins
    from r_fwd import field_names
    fn = P.fn_by_key("<liquid_core::parser::parser::TagBlock>::next")
    names = field_names(P, fn)
    so = SelfOrigins(P, fn)
    nexts = []
    for bi, t in P.calls(fn):
        f = t.get("f")
        if f and f["id"].rsplit("::", 1)[1] == "next" and t["args"]:
            ol = op_local(t["args"][0])
            og = so.place_origin([ol[0], ol[1]]) if ol else None
            if og and og != () and og[0] < len(names) and names[og[0]] == "iter":
                nexts.append((bi, t))
    site = "TagBlock::next exhausted-iterator"
    if len(nexts) != 1:
        rep.viol(rule, site, P.where(fn), "expected one pull from self.iter, found %d" % len(nexts))
        return
    bi, t = nexts[0]
    holder = t["d"][0]
    # case B: Option -> ok_or/ok_or_else -> `?`
    for b2, t2 in P.calls(fn):
        a0 = op_local(t2["args"][0]) if t2.get("args") else None
        if a0 and a0[0] == holder and t2.get("f") and t2["f"]["id"].rsplit("::", 1)[1] in ("ok_or_else", "ok_or"):
            r2 = t2["d"][0]
            br = [t3 for b3, t3 in P.calls(fn) if t3.get("f") and t3["f"]["id"].endswith("Try::branch") and op_local(t3["args"][0]) and op_local(t3["args"][0])[0] == r2]
            if br:
                rep.ok(rule, site, P.where(fn, t["line"]), "self.iter.next().ok_or_else(error)? — exhaustion becomes an Err that is propagated")
                return
    # case A: match on the Option
    cur = t["t"]
    none = None
    for _ in range(6):
        b = fn.blocks[cur]
        tt = b["t"]
        if tt["k"] == "switch":
            ol = op_local(tt["o"])
            if any(st[0] == "a" and ol and st[1][0] == ol[0] and st[2]["k"] == "discr" and st[2]["p"][0] == holder for st in b["s"]):
                none = [tb for v, tb in tt["t"] if v == 0] or [tt["else"]]
            break
        cur = tt.get("t") if tt["k"] in ("goto", "drop") else None
        if cur is None:
            break
    if none is None:
        rep.viol(rule, site, P.where(fn, t["line"]), "the result of self.iter.next() is neither matched nor turned into an error with ok_or_else")
        return
    reach = kreach(P, fn, none)
    oks = []
    for b2 in sorted(reach):
        for st in fn.blocks[b2]["s"]:
            if st[0] == "a" and st[1][0] == 0 and not st[1][1] and st[2]["k"] == "agg" and st[2].get("vname") == "Ok":
                oks.append(st[3] if len(st) > 3 else 0)
    if oks:
        rep.viol(rule, site, P.where(fn, oks[0]),
                 "when the element iterator is exhausted the block reader can return Ok: an unclosed block inside a block that ignores nested errors is accepted")
    else:
        rep.ok(rule, site, P.where(fn, t["line"]), "the None edge of self.iter.next() reaches only error returns")


# ---------------------------------------------------------------------------------------
# R-SRCVERBATIM: the source text reaches the grammar exactly as given

def run_source_verbatim(P, rep, rule="R-SRCVERBATIM"):
    """liquid::Parser::parse hands its `text` parameter to liquid_core::parser::parse unmodified (no trimming, BOM stripping,
    normalisation); and parser::parse hands its `text` to the pest parser unmodified."""
    from origins import backward_slice
    specs = [("<liquid::parser::Parser>::parse", lambda f: f["id"] == "liquid_core::parser::parser::parse", 0, 2),
             ("liquid_core::parser::parser::parse", lambda f: f["id"].endswith("Parser::parse") and "pest" in f["name"], 1, 1)]
    ALLOW = {"deref", "as_ref", "as_str", "borrow", "into", "from"}
    for key, pred, argi, param in specs:
        fns = P.by_key(key)
        site = key.split(">::")[-1] if ">::" in key else key.rsplit("::", 2)[-2] + "::" + key.rsplit("::", 1)[-1]
        site = ("liquid::Parser::parse" if key.startswith("<liquid::") else "parser::parse") + " text"
        if len(fns) != 1:
            rep.anchor_missing(rule, key)
            continue
        fn = fns[0]
        calls = [(bi, t) for bi, t in P.calls(fn) if t.get("f") and pred(t["f"])]
        if len(calls) != 1:
            rep.viol(rule, site, P.where(fn), "expected exactly one hand-over of the text to the next parsing stage, found %d" % len(calls))
            continue
        bi, t = calls[0]
        ol = op_local(t["args"][argi]) if len(t["args"]) > argi else None
        locs, cs = backward_slice(fn, ol[0]) if ol else (set(), [])
        bad = [c["f"]["name"] for c in cs if c.get("f") and c["f"]["id"].rsplit("::", 1)[1] not in ALLOW]
        if param not in locs:
            rep.viol(rule, site, P.where(fn, t["line"]), "the text handed on does not derive from the `text` parameter")
        elif bad:
            rep.viol(rule, site, P.where(fn, t["line"]), "the source text passes through `%s` before it is parsed: what is parsed is not what was given" % bad[0])
        else:
            rep.ok(rule, site, P.where(fn, t["line"]), "the `text` parameter is handed on as is")



def run_tag_args_kept(P, rep, rule="R-KEEPVALS"):
    """IncludeTag::parse (stdlib, jekyll) and RenderTag::parse: every `name: value` pair that parsed is pushed onto the
    argument list before the next token is read — no pair is dropped at parse time (an argument always shadows)."""
    from r_pair import return_blocks
    keys = ["<liquid_lib::stdlib::tags::include_tag::IncludeTag as liquid_core::parser::tag::ParseTag>::parse",
            "<liquid_lib::jekyll::include_tag::IncludeTag as liquid_core::parser::tag::ParseTag>::parse",
            "<liquid_lib::stdlib::tags::render_tag::RenderTag as liquid_core::parser::tag::ParseTag>::parse"]
    for key in keys:
        fns = P.by_key(key)
        if len(fns) != 1:
            rep.anchor_missing(rule, key)
            continue
        fn = fns[0]
        label = key.split(" as ")[0].lstrip("<").rsplit("::", 2)[-2] + "::" + key.split(" as ")[0].rsplit("::", 1)[-1]
        import r_term
        loops_ = r_term.natural_loops(P, fn)
        n = 0
        for h, body in loops_:
            vals = [(b, fn.blocks[b]["t"]) for b in sorted(body) if fn.blocks[b]["t"]["k"] == "call" and fn.blocks[b]["t"].get("f")
                    and fn.blocks[b]["t"]["f"]["id"].rsplit("::", 1)[1] == "expect_value"]
            if not vals:
                continue
            pushes = {b for b in body if fn.blocks[b]["t"]["k"] == "call" and fn.blocks[b]["t"].get("f")
                      and (fn.blocks[b]["t"]["f"]["id"].rsplit("::", 1)[1] in ("push", "insert", "extend", "extend_one"))}
            resid = {b for b, t in P.calls(fn) if t.get("f") and t["f"]["id"].endswith("FromResidual::from_residual")}
            for bi, t in vals:
                n += 1
                site = "%s argument value#%d" % (label, n - 1)
                r = P.reach(fn, [t["t"]], stop=pushes | resid)
                if h in r or (r & set(return_blocks(fn))):
                    rep.viol(rule, site, P.where(fn, t["line"]), "a parsed `name: value` argument can be dropped: a path returns to the argument loop / "
                             "leaves the parser without pushing the pair")
                else:
                    rep.ok(rule, site, P.where(fn, t["line"]), "every success path pushes the pair before reading on")
        if n == 0:
            rep.ok(rule, label + " arguments", P.where(fn), "no argument loop with values here (not decided by this rule)")


# ---------------------------------------------------------------------------------------
# R-CASEARM: a `when` starts an arm with an empty body

def run_case_arm_reset(P, rep, rule="R-CASEARM"):
    """CaseBlock::parse collects the elements of the current arm in one vector (the one `Vec::push` receives parsed elements
    into).  Every `when` starts a new arm: on every path to the `parse_condition` call of the `when` arm the collector has been
    emptied inside the loop (`= Vec::new()` / `mem::take`), whether or not an arm was open — otherwise whatever stands between
    `{% case %}` and the first `{% when %}` is rendered as part of the first arm."""
    key = "<liquid_lib::stdlib::blocks::case_block::CaseBlock as %s>::parse" % PB
    fns = P.by_key(key)
    if len(fns) != 1:
        rep.anchor_missing(rule, key)
        return
    fn = fns[0]
    from mirutil import alias_closure
    acc = set()
    for bi, t in P.calls(fn):
        f = t.get("f")
        if f and f["id"].rsplit("::", 1)[1] == "push" and "Vec" in f["name"] and t["args"]:
            ol = op_local(t["args"][0])
            if ol and "dyn liquid_core::runtime::renderable::Renderable" in P.local_ty(fn, ol[0]):
                # &mut acc -> acc
                from mirutil import defs_of
                for kind, b2, si, d in defs_of(fn, ol[0]):
                    if kind == "a" and d["k"] == "ref" and not d["p"][1]:
                        acc.add(d["p"][0])
    whens = [(bi, t) for bi, t in P.calls(fn) if t.get("f") and t["f"]["id"].endswith("case_block::parse_condition")]
    if len(acc) != 1 or not whens:
        rep.anchor_missing(rule, key + " (collector vector x%d, parse_condition calls x%d: re-derive)" % (len(acc), len(whens)))
        return
    a = next(iter(acc))
    refs = alias_closure(fn, [a])
    resets = set()
    for bi, t in P.calls(fn):
        f = t.get("f")
        if not f:
            continue
        last = f["id"].rsplit("::", 1)[1]
        if t["d"][0] == a and not t["d"][1] and last in ("new", "default", "with_capacity") and "Vec" in f["name"]:
            resets.add(bi)
        if last in ("take", "replace") and "mem::" in f["name"] and t["args"] and (op_local(t["args"][0]) or (None,))[0] in refs:
            resets.add(bi)
        if last == "clear" and t["args"] and (op_local(t["args"][0]) or (None,))[0] in refs:
            resets.add(bi)
    # `acc = Vec::new()` on an existing binding goes through a temporary: `tmp = Vec::new(); drop(acc); acc = move tmp`
    from mirutil import defs_of as _defs
    for b2, blk in enumerate(fn.blocks):
        for st in blk["s"]:
            if st[0] == "a" and st[1][0] == a and not st[1][1] and st[2]["k"] == "use":
                src = op_local(st[2]["o"])
                ds = _defs(fn, src[0]) if src and not src[1] else []
                if len(ds) == 1 and ds[0][0] == "c" and ds[0][3].get("f") and ds[0][3]["f"]["id"].rsplit("::", 1)[1] in ("new", "default", "with_capacity") \
                        and "Vec" in ds[0][3]["f"]["name"]:
                    resets.add(b2)
    for k, (bi, t) in enumerate(whens):
        inloop = {r for r in resets if r in P.reach(fn, P.succ(fn)[bi])}
        if any(P.dominates(fn, r, bi) for r in inloop):
            rep.ok(rule, "CaseBlock::parse when#%d" % k, P.where(fn, t["line"]), "the arm collector is emptied on every path into the `when` arm")
        else:
            rep.viol(rule, "CaseBlock::parse when#%d" % k, P.where(fn, t["line"]),
                     "the `when` arm can start without the element collector having been emptied (the reset is conditional on an open arm): text between "
                     "`{% case %}` and the first `{% when %}` becomes part of the first arm")
