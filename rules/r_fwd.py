"""R-FWD: forwarding / ownership matrices over sibling implementations of one trait.

For each (impl, method) a *role profile* is extracted from MIR: which fields of self the
body (and its closures) touch, which methods of the trait it calls and on which receiver
(a field of self, self itself, something else), and which helper callees it uses.  The
profile is compared with a specification cell; bodies are never compared textually.
"""
from mirutil import op_local
from origins import SelfOrigins, backward_slice

RUNTIME = "liquid_core::runtime::runtime::Runtime"


def self_adt(P, fn):
    tj = P.ty(fn.crate, fn.impl["self"])
    while tj["k"] == "ref":
        tj = P.ty(fn.crate, tj["t"])
    if tj["k"] != "adt":
        return None
    return P.adts.get(tj["id"])


def field_names(P, fn):
    a = self_adt(P, fn)
    if not a or not a["variants"]:
        return []
    return [f["name"] for f in a["variants"][0]["fields"]]


class Profile:
    def __init__(self, P, fn, _seen=None):
        self.fn = fn
        _seen = set(_seen or ()) | {fn.id}
        names = field_names(P, fn)
        so = SelfOrigins(P, fn)

        def fname(o):
            if o is None:
                return None
            if o == ():
                return "self"
            k = o[0]
            return names[k] if k < len(names) else "#%d" % k

        self.fields = {fname((k,)) for k in so.fields_touched()}
        self.tcalls = []  # (trait id, method, receiver, self_ty string)
        self.callees = []  # (last name, pretty name, receiver)
        self.panics = False
        self.bodies = so.all_bodies()
        for body, org in self.bodies:
            for bi, t in P.calls(body):
                f = t.get("f")
                if not f:
                    self.callees.append(("<indirect>", "<indirect>", None))
                    continue
                recv = None
                if t["args"]:
                    ol = op_local(t["args"][0])
                    if ol:
                        recv = fname(org.place_origin([ol[0], ol[1]]))
                last = f["id"].rsplit("::", 1)[1]
                self.callees.append((last, f["name"], recv))
                if f["id"].startswith("core::panicking::") or f["id"].startswith("std::rt::begin_panic"):
                    self.panics = True
                if f.get("trait"):
                    st = P.tstr(body.crate, f["self_ty"]) if "self_ty" in f else "?"
                    self.tcalls.append((f["trait"], last, recv, st))
                # a private inherent method of the same type called on self is part of this method's behaviour
                g = P.fns.get(f["id"])
                if (g is not None and g.id not in _seen and g.kind == "method" and g.impl and not g.impl.get("trait") and not g.pub
                        and fn.impl and g.impl.get("self") is not None and g.crate == fn.crate
                        and P.tstr(g.crate, g.impl["self"]) == P.tstr(fn.crate, fn.impl["self"]) and recv == "self"):
                    hp = Profile(P, g, _seen)
                    self.fields |= hp.fields
                    self.tcalls += hp.tcalls
                    self.callees += hp.callees
                    self.panics = self.panics or hp.panics

    def trait_calls(self, trait):
        return [(m, r, st) for (tr, m, r, st) in self.tcalls if tr == trait]

    def callee_names(self):
        return {c[0] for c in self.callees}


# ---------------------------------------------------------------------------------------
# Runtime matrix (C18, C08, C04)

UNBIND = {"remove", "remove_entry", "swap_remove", "shift_remove", "clear", "retain", "drain", "pop", "take", "truncate", "split_off", "extract_if"}


def cell(parent=(), own=(), notown=(), need=(), forbid=(), panics=False):
    return {"parent": set(parent), "own": set(own), "notown": set(notown), "need": set(need),
            "forbid": set(forbid), "panics": panics}


FWD = lambda m, notown=("data", "registers"): cell(parent=[m], notown=notown)  # noqa: E731

RUNTIME_SPEC = {
    "liquid_core::runtime::runtime::RuntimeCore": {
        "partials": cell(own=["partials"]),
        "name": cell(),
        "roots": cell(notown=["partials", "registers"]),
        "try_get": cell(),
        "get": cell(),
        "set_global": cell(panics=True),
        "set_index": cell(panics=True),
        "get_index": cell(),
        "registers": cell(own=["registers"]),
    },
    "liquid_core::runtime::stack::IndexFrame": {
        "partials": FWD("partials"),
        "name": FWD("name"),
        "roots": cell(parent=["roots"], own=["data"], need=["extend"]),
        "try_get": cell(parent=["try_get"], own=["data"], need=["contains_key", "try_find", "first"], forbid=["find"]),
        "get": cell(parent=["get"], own=["data"], need=["contains_key", "find", "first"], forbid=["try_find"]),
        "set_global": FWD("set_global"),
        "set_index": cell(own=["data"], need=["borrow_mut", "insert"]),
        "get_index": cell(own=["data"], need=["borrow", "get"]),
        "registers": FWD("registers"),
    },
    "liquid_core::runtime::stack::StackFrame": {
        "partials": FWD("partials"),
        "name": cell(parent=["name"], own=["name"], notown=["data"]),
        "roots": cell(parent=["roots"], own=["data"], need=["extend", "keys"]),
        "try_get": cell(parent=["try_get"], own=["data"], need=["contains_key", "try_find", "first"], forbid=["find"]),
        "get": cell(parent=["get"], own=["data"], need=["contains_key", "find", "first"], forbid=["try_find"]),
        "set_global": FWD("set_global"),
        "set_index": FWD("set_index"),
        "get_index": FWD("get_index"),
        "registers": FWD("registers"),
    },
    "liquid_core::runtime::stack::GlobalFrame": {
        "partials": FWD("partials"),
        "name": FWD("name"),
        "roots": cell(parent=["roots"], own=["data"], need=["extend"]),
        "try_get": cell(parent=["try_get"], own=["data"], need=["contains_key", "try_find", "first"], forbid=["find"]),
        "get": cell(parent=["get"], own=["data"], need=["contains_key", "find", "first"], forbid=["try_find"]),
        "set_global": cell(own=["data"], need=["borrow_mut", "insert"]),
        "set_index": FWD("set_index"),
        "get_index": FWD("get_index"),
        "registers": FWD("registers"),
    },
    "liquid_core::runtime::stack::SandboxedStackFrame": {
        "partials": FWD("partials"),
        "name": cell(parent=["name"], own=["name"], notown=["data"]),
        "roots": cell(own=["data"], need=["extend", "keys"]),
        "try_get": cell(own=["data"], need=["first"]),
        "get": cell(own=["data"], need=["first"]),
        "set_global": FWD("set_global"),
        "set_index": FWD("set_index"),
        "get_index": FWD("get_index"),
        "registers": cell(own=["registers"]),
    },
    "&R": {m: cell(parent=[m]) for m in
           ("partials", "name", "roots", "try_get", "get", "set_global", "set_index", "get_index", "registers")},
}


def runtime_impl_name(P, im):
    tj = P.ty(im["crate"], im["self"])
    if tj["k"] == "adt":
        return tj["id"]
    return P.impl_self_str(im)


def run_runtime_matrix(P, rep, rows=None, methods=None, rule="R-FWD.runtime"):
    impls = [im for im in P.impls_of(RUNTIME) if im["crate"] in ("liquid_core", "liquid", "liquid_lib")]
    byname = {}
    for im in impls:
        byname[runtime_impl_name(P, im)] = im
    # closed world: an unknown Runtime implementor in the library crates is outside the matrix
    for nm in sorted(byname):
        if nm not in RUNTIME_SPEC:
            rep.viol(rule, "unknown-implementor " + nm, "%s:%s" % (byname[nm]["file"], byname[nm]["line"]),
                     "a new Runtime implementor `%s` is not covered by the layer specification matrix" % nm)
    for nm in sorted(RUNTIME_SPEC):
        if rows and nm not in rows:
            continue
        im = byname.get(nm)
        if im is None:
            rep.anchor_missing(rule, "impl Runtime for " + nm)
            continue
        items = {it["name"]: it["id"] for it in im["items"] if it["is_fn"]}
        for m, spec in sorted(RUNTIME_SPEC[nm].items()):
            if methods and m not in methods:
                continue
            fid = items.get(m)
            fn = P.fns.get(fid) if fid else None
            if fn is None:
                rep.anchor_missing(rule, "%s::%s" % (nm, m))
                continue
            check_cell(P, rep, rule, nm, m, fn, spec, RUNTIME)


def check_cell(P, rep, rule, nm, m, fn, spec, trait, parent_field=None):
    # a cell is what the method does, private helpers included: expand them in place before profiling
    import inline
    hs = inline.helpers_of(P, [fn], depth=1)
    if hs:
        fn2, n2 = inline.inlined(P, fn, frozenset(hs))
        if n2:
            fn = fn2
    pr = Profile(P, fn)
    site = "%s::%s" % (nm.rsplit("::", 1)[-1], m)
    where = P.where(fn)
    problems = []
    names = field_names(P, fn)
    # which receiver counts as "parent": the field named parent (frames) or the deref target (&R)
    pcalls = set()
    selfcalls = set()
    for (meth, recv, st) in pr.trait_calls(trait):
        if recv == "parent" or (not names and recv in ("self", None)) or (recv is None and st in ("P", "R")):
            pcalls.add(meth)
        elif recv == "self":
            selfcalls.add(meth)
        else:
            pcalls.add(meth + "@" + str(recv))
    if pcalls != spec["parent"]:
        extra = pcalls - spec["parent"]
        missing = spec["parent"] - pcalls
        if extra:
            problems.append("calls the wrapped runtime's %s, which this layer must not consult here" % sorted(extra))
        if missing:
            problems.append("does not forward to the wrapped runtime's %s" % sorted(missing))
    if selfcalls:
        problems.append("calls its own %s recursively" % sorted(selfcalls))
    for f in spec["own"]:
        if f not in pr.fields:
            problems.append("does not use its own field `%s`" % f)
    for f in spec["notown"]:
        if f in pr.fields:
            problems.append("touches its own field `%s`, which must play no part here" % f)
    cn = pr.callee_names()
    for c in spec["need"]:
        if c not in cn:
            problems.append("expected helper call `%s` is absent" % c)
    for c in spec["forbid"]:
        if c in cn:
            problems.append("calls `%s` (the sibling lookup's helper)" % c)
    # no layer operation ever ends a binding: bindings live until the layer itself is dropped
    for c in sorted(cn & UNBIND):
        problems.append("calls `%s`: a scope layer never removes a binding (a name stays bound until its layer ends)" % c)
    if spec["panics"] != pr.panics and spec["panics"]:
        problems.append("base case no longer diverges (unreachable!)")
    if pr.panics and not spec["panics"]:
        problems.append("contains a panic path")
    if problems:
        for p in problems:
            rep.viol(rule, site, where, p, {"function": fn.key, "fields": sorted(pr.fields),
                                            "trait_calls": [list(x) for x in pr.trait_calls(trait)]})
    else:
        role = []
        if spec["own"]:
            role.append("own(" + ",".join(sorted(spec["own"])) + ")")
        if spec["parent"]:
            role.append("fwd(" + ",".join(sorted(spec["parent"])) + ")")
        if spec["panics"]:
            role.append("diverges")
        rep.ok(rule, site, where, " + ".join(role) or "constant answer")
    return pr


def run_lookup_keying(P, rep, rule="R-FWD.keying"):
    """Sibling rule for get/try_get of the four data-bearing frames: the membership test is
    keyed by the FIRST path element, and the lookup is applied to the whole, unsliced path."""
    frames = ["liquid_core::runtime::stack::IndexFrame", "liquid_core::runtime::stack::StackFrame",
              "liquid_core::runtime::stack::GlobalFrame", "liquid_core::runtime::stack::SandboxedStackFrame"]
    impls = {runtime_impl_name(P, im): im for im in P.impls_of(RUNTIME)}
    for nm in frames:
        im = impls.get(nm)
        if im is None:
            rep.anchor_missing(rule, "impl Runtime for " + nm)
            continue
        items = {it["name"]: it["id"] for it in im["items"] if it["is_fn"]}
        for m in ("get", "try_get"):
            fn = P.fns.get(items.get(m))
            if fn is not None:
                import inline
                hs_ = inline.helpers_of(P, [fn], depth=1)
                if hs_:
                    f2_, n2_ = inline.inlined(P, fn, frozenset(hs_))
                    if n2_:
                        fn = f2_
            if fn is None:
                rep.anchor_missing(rule, nm + "::" + m)
                continue
            site = "%s::%s" % (nm.rsplit("::", 1)[-1], m)
            where = P.where(fn)
            probs = []
            # membership call: contains_key / get on data with a key argument
            memb = []
            for bi, t in P.calls(fn):
                f = t.get("f")
                if not f:
                    continue
                last = f["id"].rsplit("::", 1)[1]
                if last in ("contains_key",) or (last == "get" and f.get("trait", "").endswith("ObjectView")):
                    memb.append(t)
            if len(memb) != 1:
                probs.append("expected exactly one membership test on the layer's data, found %d" % len(memb))
            else:
                ol = op_local(memb[0]["args"][1])
                locs, calls = backward_slice(fn, ol[0]) if ol else (set(), [])
                cn = [c["f"]["id"].rsplit("::", 1)[1] for c in calls if c.get("f")]
                if "first" not in cn:
                    probs.append("membership key is not derived from path.first()")
                if any(x in cn for x in ("last", "index", "nth", "get")):
                    probs.append("membership key derivation uses %s" % [x for x in cn if x in ("last", "index", "nth", "get")])
                if 2 not in locs:
                    probs.append("membership key does not depend on the path parameter")
            # branch polarity: own lookup on the `true` edge of the membership test, parent on `false`
            if len(memb) == 1 and memb[0]["f"]["id"].rsplit("::", 1)[1] == "contains_key":
                mt = memb[0]
                mb = [bi for bi, t in P.calls(fn) if t is mt][0]
                sw = None
                cur = mt["t"]
                for _ in range(6):
                    tt = fn.blocks[cur]["t"]
                    if tt["k"] == "switch":
                        ol2 = op_local(tt["o"])
                        if ol2 and ol2[0] == mt["d"][0]:
                            sw = tt
                        break
                    if tt["k"] in ("goto", "drop"):
                        cur = tt["t"]
                    else:
                        break
                if sw is None:
                    probs.append("membership result is not branched on directly")
                else:
                    false_bb = [b for v, b in sw["t"] if v == 0]
                    true_bb = sw["else"]
                    if len(false_bb) != 1:
                        probs.append("unexpected switch shape on the membership result")
                    else:
                        rt = P.reach(fn, [true_bb])
                        rf = P.reach(fn, [false_bb[0]])
                        for bi, t in P.calls(fn):
                            f = t.get("f")
                            if not f:
                                continue
                            last = f["id"].rsplit("::", 1)[1]
                            if f["id"] in ("liquid_core::model::find::find", "liquid_core::model::find::try_find"):
                                if bi in rf or bi not in rt:
                                    probs.append("own-data lookup `%s` is reachable when the layer does NOT hold the key" % last)
                            if f.get("trait") == RUNTIME and last in ("get", "try_get"):
                                if bi in rt or bi not in rf:
                                    probs.append("parent `%s` is consulted when the layer DOES hold the key (shadowing broken)" % last)
            # the lookup helper and the parent call receive the path parameter itself
            bodies = Profile(P, fn).bodies
            for body, org in bodies:
                for bi, t in P.calls(body):
                    f = t.get("f")
                    if not f:
                        continue
                    last = f["id"].rsplit("::", 1)[1]
                    is_lookup = f["id"] in ("liquid_core::model::find::find", "liquid_core::model::find::try_find")
                    is_parent = f.get("trait") == RUNTIME and last in ("get", "try_get")
                    if not (is_lookup or is_parent):
                        continue
                    ol = op_local(t["args"][1])
                    if not ol:
                        probs.append("%s receives a constant path" % last)
                        continue
                    if body is fn:
                        locs, calls = backward_slice(body, ol[0])
                        cn = [c["f"]["id"].rsplit("::", 1)[1] for c in calls if c.get("f")]
                        if 2 not in locs:
                            probs.append("%s is not applied to the path parameter" % last)
                        if any(x in cn for x in ("index", "split_first", "split_at", "get", "iter", "to_vec")):
                            probs.append("%s is applied to a transformed path (%s)" % (last, cn))
            if probs:
                for p in probs:
                    rep.viol(rule, site, where, p)
            else:
                rep.ok(rule, site, where, "membership keyed by path.first(); find/try_find/parent get the whole path")
