"""C07 rules: failing lookups on the output path are propagated (R-LOUD), the first/last/size
overlay never shadows real elements/keys, string literals are taken verbatim."""
from mirutil import op_local
from origins import backward_slice
from pathsel import discr_switches, arm_region, region_facts
import r_wprop
from r_wprop import Tracker


def must_propagate(P, rep, rule, fnkey, pred, label, min_count=1):
    fn = P.fn_by_key(fnkey)
    n = 0
    for bi, t in P.calls(fn):
        f = t.get("f")
        if not f or not pred(f):
            continue
        n += 1
        site = "%s %s#%d" % (fn.key.rsplit("::", 2)[-2] + "::" + fn.key.rsplit("::", 1)[-1], label, n)
        if t["t"] is None or t["d"][1]:
            continue
        tr = Tracker(P, fn, lambda f2, t2: False)
        probs = tr.run(t["t"], 0, {t["d"][0]: "R"})
        # a result handed to expect()/unwrap() is not swallowed (it panics instead: R-PANIC's business, not this rule's)
        probs = [(w, l) for (w, l) in probs if not ("::expect`" in w or "::unwrap`" in w or w.rstrip("`").endswith(("::expect", "::unwrap")))]
        if probs:
            for what, line in probs:
                rep.viol(rule, site, P.where(fn, line), "lookup error is not propagated: " + what)
        else:
            rep.ok(rule, site, P.where(fn, t["line"]), "error propagated to the caller")
    if n < min_count:
        rep.viol(rule, "%s %s" % (fnkey, label), P.where(fn), "expected at least %d `%s` call(s), found %d (is the optional, non-failing lookup used instead?)" % (min_count, label, n))
    return fn


def run_loud(P, rep, rule="R-LOUD"):
    RT = "liquid_core::runtime::runtime::Runtime"
    fn = must_propagate(P, rep, rule, "<liquid_core::runtime::expression::Expression>::evaluate",
                        lambda f: f.get("trait") == RT and f["id"].endswith("::get"), "Runtime::get")
    if any(t.get("f") and t["f"].get("trait") == RT and t["f"]["id"].endswith("::try_get") for bi, t in P.calls(fn)):
        rep.viol(rule, "Expression::evaluate try_get", P.where(fn), "the failing form of evaluate uses the optional lookup try_get")
    must_propagate(P, rep, rule, "<liquid_core::runtime::expression::Expression>::evaluate",
                   lambda f: f["name"].endswith("Variable::evaluate"), "Variable::evaluate")
    fn = must_propagate(P, rep, rule, "<liquid_core::parser::filter_chain::FilterChain>::evaluate",
                        lambda f: f["name"].endswith("Expression::evaluate"), "Expression::evaluate")
    if any(t.get("f") and t["f"]["name"].endswith("Expression::try_evaluate") for bi, t in P.calls(fn)):
        rep.viol(rule, "FilterChain::evaluate try_evaluate", P.where(fn), "an output tag resolves its entry with the optional lookup: a missing variable would print nothing")
    must_propagate(P, rep, rule, "<liquid_core::parser::filter_chain::FilterChain>::evaluate",
                   lambda f: f.get("trait", "").endswith("filter::Filter") and f["id"].endswith("::evaluate"), "Filter::evaluate")
    must_propagate(P, rep, rule, "<liquid_core::parser::filter_chain::FilterChain as liquid_core::runtime::renderable::Renderable>::render_to",
                   lambda f: f["name"].endswith("FilterChain::evaluate"), "FilterChain::evaluate")
    # Variable::evaluate: every index expression is evaluated with the failing lookup
    must_propagate(P, rep, rule, "<liquid_core::runtime::variable::Variable>::evaluate",
                   lambda f: f["name"].endswith("Expression::evaluate"), "Expression::evaluate")
    # frames' get: find(..) result is returned (map only)
    for frame in ("IndexFrame<P>", "StackFrame<P, O>", "GlobalFrame<P>"):
        key = "<liquid_core::runtime::stack::%s as liquid_core::runtime::runtime::Runtime>::get" % frame
        old = r_wprop.is_adapter
        try:
            r_wprop.is_adapter = lambda f, _o=old: _o(f) or f["name"].endswith(">::map")
            must_propagate(P, rep, rule, key, lambda f: f["id"] == "liquid_core::model::find::find", "find")
        finally:
            r_wprop.is_adapter = old


def run_find_loud(P, rep, rule="R-LOUD"):
    """model::find is try_find plus an error: every `Ok(..)` it returns carries the value try_find produced.  An `Ok` built from
    anything else (a nil for "as in Ruby", a default) makes the failing lookup succeed where the optional one says None — an
    output tag prints nothing instead of failing, and get / try_get disagree."""
    from origins import backward_slice
    fn = P.fn_by_key("liquid_core::model::find::find")
    if fn is None:
        rep.anchor_missing(rule, "liquid_core::model::find::find")
        return
    tf = [t for bi, t in P.calls(fn) if t.get("f") and t["f"]["id"].endswith("find::try_find")]
    from mirutil import copy_root
    # the call on the whole path (the others, on prefixes, only build the error text)
    from mirutil import alias_closure
    whole = alias_closure(fn, [2])
    tf = [t for t in tf if len(t["args"]) > 1 and op_local(t["args"][1]) and (op_local(t["args"][1])[0] in whole or copy_root(fn, op_local(t["args"][1])[0]) in whole)]
    if len(tf) != 1:
        rep.viol(rule, "find shape", P.where(fn), "expected one try_find(value, path) call on the whole path in find, found %d: re-derive" % len(tf))
        return
    src = tf[0]["d"][0]
    n = 0
    for bi, b in enumerate(fn.blocks):
        for st in b["s"]:
            if st[0] == "a" and st[2]["k"] == "agg" and st[2].get("vname") == "Ok" and "Result" in P.local_ty(fn, st[1][0]):
                n += 1
                ops = st[2].get("ops") or []
                ol = op_local(ops[0]) if ops else None
                locs = backward_slice(fn, ol[0])[0] if ol else set()
                if src not in locs:
                    rep.viol(rule, "find Ok#%d" % n, P.where(fn, st[3] if len(st) > 3 else None),
                             "find returns an `Ok` whose value does not come from try_find: a path that does not resolve yields a value (e.g. nil) instead of an error")
                    return
    if not n:
        rep.viol(rule, "find shape", P.where(fn), "no Ok(..) construction found in find: re-derive")
    else:
        rep.ok(rule, "find", P.where(fn), "every Ok(..) of find (%d) carries try_find's value; everything else is an Err" % n)


def run_fold_order(P, rep, rule="R-FOLD"):
    """FilterChain::evaluate folds the filters left to right: iterates self.filters forward and feeds each result to the next."""
    fn = P.fn_by_key("<liquid_core::parser::filter_chain::FilterChain>::evaluate")
    names = [(t["f"]["id"].rsplit("::", 1)[1], t["f"]["name"]) for bi, t in P.calls(fn) if t.get("f")]
    lasts = [n for n, _ in names]
    probs = []
    if "rev" in lasts or "next_back" in lasts or "rfold" in lasts:
        probs.append("filters are iterated in reverse")
    if not any(n in ("into_iter", "iter") for n in lasts) or "next" not in lasts:
        probs.append("no forward iteration over self.filters found")
    # the filter input is the running value `entry` (as_view of the local that also receives the result)
    ev = [t for bi, t in P.calls(fn) if t.get("f") and t["f"].get("trait", "").endswith("filter::Filter") and t["f"]["id"].endswith("::evaluate")]
    if len(ev) != 1:
        probs.append("expected one Filter::evaluate call in the loop, found %d" % len(ev))
    else:
        ol = op_local(ev[0]["args"][1])
        locs, calls = backward_slice(fn, ol[0]) if ol else (set(), [])
        # the running value: a local that feeds the filter's input AND is re-defined from the filter's result (found by
        # data flow, whatever it is called)
        from mirutil import defs_of
        back = False
        feeds = False
        for e in sorted(locs):
            ds = defs_of(fn, e)
            if len(ds) < 2:
                continue
            feeds = True
            for kind, bi, si, d in ds:
                src = None
                if kind == "a" and d["k"] == "use":
                    o2 = op_local(d["o"])
                    src = o2[0] if o2 else None
                elif kind == "a" and d["k"] == "agg":
                    for o in d.get("ops", []):
                        o2 = op_local(o)
                        if o2:
                            l2, _ = backward_slice(fn, o2[0])
                            if ev[0]["d"][0] in l2:
                                back = True
                elif kind == "c":
                    l2 = set()
                    for a in d.get("args", []):
                        o2 = op_local(a)
                        if o2:
                            l2 |= backward_slice(fn, o2[0])[0]
                    if ev[0]["d"][0] in l2:
                        back = True
                if src is not None:
                    l2, c2 = backward_slice(fn, src)
                    if ev[0]["d"][0] in l2:
                        back = True
        if not feeds:
            probs.append("the filter input is not a running value (no local that is both the input and re-assigned in the loop)")
        if not back:
            probs.append("the filter result does not become the next running value")
    if probs:
        for p in probs:
            rep.viol(rule, "FilterChain::evaluate", P.where(fn), p)
    else:
        rep.ok(rule, "FilterChain::evaluate", P.where(fn), "entry = filter(entry) for each filter in declaration order")


def run_overlay(P, rep, rule="R-OVERLAY"):
    fn = P.fn_by_key("liquid_core::model::find::augmented_get")
    calls = {bi: t for bi, t in P.calls(fn)}
    def find(pred):
        return [bi for bi, t in calls.items() if t.get("f") and pred(t["f"])]
    toint = find(lambda f: f["id"].endswith("::to_integer"))
    aget = find(lambda f: f.get("trait", "").endswith("ArrayView") and f["id"].endswith("::get"))
    afirst = find(lambda f: f.get("trait", "").endswith("ArrayView") and f["id"].rsplit("::", 1)[1] in ("first", "last", "size"))
    oget = find(lambda f: f.get("trait", "").endswith("ObjectView") and f["id"].endswith("::get"))
    probs = []
    if len(toint) != 1 or len(aget) != 1:
        probs.append("array lookup shape changed (to_integer x%d, ArrayView::get x%d)" % (len(toint), len(aget)))
    else:
        # branch on the Option discriminant after to_integer
        t = calls[toint[0]]
        d = t["d"][0]
        cur = t["t"]
        sw = None
        for _ in range(6):
            b = fn.blocks[cur]
            tt = b["t"]
            if tt["k"] == "switch":
                ol = op_local(tt["o"])
                if any(st[0] == "a" and ol and st[1][0] == ol[0] and st[2]["k"] == "discr" and st[2]["p"][0] == d for st in b["s"]):
                    sw = (cur, tt)
                break
            cur = tt.get("t") if tt["k"] in ("goto", "drop") else None
            if cur is None:
                break
        if sw is None:
            probs.append("no branch on index.to_integer()")
        else:
            ci, tt = sw
            some = [tb for v, tb in tt["t"] if v == 1] or [tt["else"]]
            none = [tb for v, tb in tt["t"] if v == 0] or [tt["else"]]
            rs, rn = P.reach(fn, some), P.reach(fn, none)
            if aget[0] not in rs or aget[0] in rn:
                probs.append("integer index does not go (only) to ArrayView::get")
            for b2 in afirst:
                if b2 in rs and b2 not in rn:
                    probs.append("first/last/size overlay is consulted for an integer index")
    # a missing first/last/element stays missing: the Option of ArrayView::first/last/get is only mapped, never defaulted
    for b0 in afirst + aget:
        t0 = calls[b0]
        if t0["f"]["id"].rsplit("::", 1)[1] == "size":
            continue
        holders = {t0["d"][0]}
        changed = True
        while changed:
            changed = False
            for b2, t2 in calls.items():
                a0 = op_local(t2["args"][0]) if t2.get("args") else None
                if not (a0 and a0[0] in holders and t2.get("f")):
                    continue
                last = t2["f"]["id"].rsplit("::", 1)[1]
                if last == "map":
                    if t2["d"][0] not in holders:
                        holders.add(t2["d"][0])
                        changed = True
                elif last in ("unwrap_or_default", "unwrap_or", "unwrap_or_else", "or", "or_else", "map_or", "map_or_else", "unwrap", "expect", "get_or_insert_with"):
                    p_ = "a missing array element is defaulted with `%s` instead of staying missing (the lookup must fail / be absent)" % last
                    if p_ not in probs:
                        probs.append(p_)
            for b in fn.blocks:
                for st in b["s"]:
                    if st[0] == "a" and not st[1][1] and st[2]["k"] == "use" and op_local(st[2]["o"]) and op_local(st[2]["o"])[0] in holders \
                            and not op_local(st[2]["o"])[1] and st[1][0] not in holders:
                        holders.add(st[1][0])
                        changed = True
    if len(oget) != 1:
        probs.append("object lookup shape changed (ObjectView::get x%d)" % len(oget))
    else:
        # `size` overlay only as or_else fallback of the real-key lookup
        t = calls[oget[0]]
        holder = t["d"][0]
        ok = False
        cur = t["t"]
        for _ in range(10):
            if cur is None:
                break
            b = fn.blocks[cur]
            tt = b["t"]
            if tt["k"] == "call" and tt.get("f"):
                args0 = op_local(tt["args"][0]) if tt["args"] else None
                if args0 and args0[0] == holder:
                    last = tt["f"]["id"].rsplit("::", 1)[1]
                    if last == "map":
                        holder = tt["d"][0]
                        cur = tt["t"]
                        continue
                    if last == "or_else":
                        ok = True
                    break
            cur = tt.get("t") if tt["k"] in ("goto", "drop", "call") else None
        if not ok:
            # branch idiom: `if let Some(child) = obj.get(..) { return .. }` then the overlay
            osize = find(lambda f: f.get("trait", "").endswith("ObjectView") and f["id"].endswith("::size"))
            holders = {t["d"][0]}
            for bi2, t2 in calls.items():
                a0 = op_local(t2["args"][0]) if t2.get("args") else None
                if a0 and a0[0] in holders and t2.get("f") and t2["f"]["id"].rsplit("::", 1)[1] == "map":
                    holders.add(t2["d"][0])
            for bi2, b in enumerate(fn.blocks):
                tt = b["t"]
                if tt["k"] != "switch":
                    continue
                ol = op_local(tt["o"])
                if not any(st[0] == "a" and ol and st[1][0] == ol[0] and st[2]["k"] == "discr" and st[2]["p"][0] in holders and not st[2]["p"][1]
                           for st in b["s"]):
                    continue
                some = [tb for v, tb in tt["t"] if v == 1] or [tt["else"]]
                none = [tb for v, tb in tt["t"] if v == 0] or [tt["else"]]
                rs, rn = P.reach(fn, some), P.reach(fn, none)
                if osize and all(o in rn and o not in rs for o in osize):
                    ok = True
        if not ok:
            probs.append("object `size` overlay is not a fallback (or_else / None-branch) of the real key lookup: a real `size` key could be shadowed")
    # `size` of a scalar is its length in characters: the number handed to Value::scalar derives from Chars::count, never from a byte length
    from origins import backward_slice
    from origins import ClosureOrigins
    n_chars = 0
    bodies = [fn] + [g for g in P.fns.values() if g.kind == "closure" and g.id.startswith(fn.id + "::{closure")]
    for g in bodies:
        for bi, t in P.calls(g):
            f = t.get("f")
            if not f or not f["id"].endswith("Value::scalar") and not f["name"].endswith("Value::scalar") and "Value::scalar::<" not in f["name"]:
                continue
            al = op_local(t["args"][0]) if t.get("args") else None
            if not al:
                continue
            _, cs = backward_slice(g, al[0])
            for c in cs:
                cf = c.get("f")
                if not cf:
                    continue
                last = cf["id"].rsplit("::", 1)[1]
                st_ = P.tstr(g.crate, cf["self_ty"]) if "self_ty" in cf else ""
                if last == "count" and "str::iter::Chars" in st_:
                    n_chars += 1
                elif last == "len" and ("core::str::" in cf["name"] or "String" in cf["name"] or "KString" in cf["name"] or "kstring" in cf["name"] or "str>::len" in cf["name"]):
                    probs.append("the computed `size` of a string is a byte length (`%s`), not a character count: it is wrong for every non-ASCII string" % cf["name"].split("<")[0])
    # the named steps are chosen by the index's *text*: value equality of scalars (where `true` equals every scalar and
    # 1 equals 1.0) is not the relation that selects first/last/size
    for g in bodies:
        for bi, t in P.calls(g):
            f = t.get("f")
            if f and f["id"].rsplit("::", 1)[1] in ("eq", "ne") and "self_ty" in f:
                st_ = P.tstr(g.crate, f["self_ty"])
                if "liquid_core::model::" in st_:
                    probs.append("a lookup step is compared with `%s == ..` (value equality of the model: `true` equals any scalar) instead of by its text"
                                 % st_.rsplit("::", 1)[-1])
    if not n_chars:
        probs.append("no computed `size` in augmented_get derives from chars().count(): the size of a string must be its length in characters")
    if probs:
        for p in probs:
            rep.viol(rule, "augmented_get", P.where(fn), p)
    else:
        rep.ok(rule, "augmented_get", P.where(fn), "arrays: integer index -> get only, names -> overlay; objects: real key first, size as fallback")
    # each lookup step consumes exactly one path element
    for key in ("liquid_core::model::find::try_find_borrowed", "liquid_core::model::find::try_find_owned"):
        fns = [f for f in P.fns.values() if f.id == key]
        if not fns:
            rep.anchor_missing(rule, key)
            continue
        f2 = fns[0]
        nx = [t for bi, t in P.calls(f2) if t.get("f") and t["f"]["id"].rsplit("::", 1)[1] == "next"]
        ag = [t for bi, t in P.calls(f2) if t.get("f") and t["f"]["id"].endswith("find::augmented_get")]
        if len(nx) == 1 and len(ag) == 1:
            rep.ok(rule, key.rsplit("::", 1)[1], P.where(f2), "one path element consumed per step, resolved with augmented_get")
        else:
            rep.viol(rule, key.rsplit("::", 1)[1], P.where(f2), "a lookup step consumes %d path elements / resolves %d times" % (len(nx), len(ag)))


def run_literal_verbatim(P, rep, rule="R-VERBATIM.literal"):
    import r_panic
    fn = P.fn_by_key("liquid_core::parser::parser::parse_literal")
    names = r_panic.rule_enum_variants(P)
    if "StringLiteral" not in names:
        rep.anchor_missing(rule, "Rule::StringLiteral")
        return
    vi = names.index("StringLiteral")
    sw = discr_switches(P, fn, lambda pl: P.local_ty(fn, pl[0]).endswith("parser::inner::Rule"))
    if not sw:
        rep.anchor_missing(rule, "match on the literal's rule")
        return
    regs = [arm_region(P, fn, v, sw) for v in range(len(names))]
    common = set(regs[0])
    for r in regs[1:]:
        common &= r
    calls, consts, ops = region_facts(P, fn, regs[vi] - common)
    lasts = [t["f"]["id"].rsplit("::", 1)[1] for bi, t in calls]
    allowed = {"as_str", "len", "index", "to_owned", "scalar", "from", "into", "new", "to_string", "deref", "index_mut"}
    extra = [x for x in lasts if x not in allowed]
    if extra:
        rep.viol(rule, "parse_literal StringLiteral", P.where(fn),
                 "the string literal's text passes through %s: content characters can be altered (only the two delimiting quotes may be removed)" % extra)
    elif "index" not in lasts:
        rep.viol(rule, "parse_literal StringLiteral", P.where(fn), "the delimiting quotes are not removed by slicing")
    else:
        rep.ok(rule, "parse_literal StringLiteral", P.where(fn), "value = literal[1..len-1].to_owned(), nothing else")
    # numeric / boolean literals: the whole token goes to str::parse; no defaulting, no sign surgery
    allowed_num = {"as_str", "parse", "expect", "unwrap", "scalar", "from", "into", "new", "branch", "from_residual", "map_err", "ok_or_else",
                   "with_msg", "into_err", "format", "must_use", "new_display", "to_owned", "to_string", "context", "new_const"}
    for lit in ("IntegerLiteral", "FloatLiteral", "BooleanLiteral"):
        if lit not in names:
            continue
        li = names.index(lit)
        calls2, consts2, ops2 = region_facts(P, fn, regs[li] - common)
        l2 = [t["f"]["id"].rsplit("::", 1)[1] for bi, t in calls2]
        extra2 = sorted(set(x for x in l2 if x not in allowed_num))
        arith = sorted(o for o in ops2 if o.replace("WithOverflow", "") in ("Add", "Sub", "Mul", "un:Neg", "Neg"))
        if "parse" not in l2:
            rep.viol(rule, "parse_literal " + lit, P.where(fn), "%s is not converted with str::parse on its token" % lit)
        elif extra2 or arith:
            rep.viol(rule, "parse_literal " + lit, P.where(fn),
                     "%s conversion passes through %s: a literal can come to denote a different value (defaulting, sign surgery or saturation)" % (lit, extra2 + arith))
        else:
            rep.ok(rule, "parse_literal " + lit, P.where(fn), "token.parse() only")


NOCLAMP = ("saturating_sub", "saturating_add", "clamp", "min", "max", "unsigned_abs", "rem_euclid", "wrapping_add", "wrapping_sub",
           "abs", "checked_rem", "rem", "wrapping_rem", "abs_diff")


def run_noclamp(P, rep, rule="R-NOCLAMP"):
    """Index conversion must keep an out-of-range index out of range (no clamping / wrapping onto a neighbour)."""
    keys = ["liquid_core::model::array::convert_index",
            "<alloc::vec::Vec<T> as liquid_core::model::array::ArrayView>::get",
            "<alloc::vec::Vec<T> as liquid_core::model::array::ArrayView>::contains_key"]
    for key in keys:
        fns = P.by_key(key)
        if len(fns) != 1:
            rep.anchor_missing(rule, key)
            continue
        fn = fns[0]
        bad = []
        for bi, t in P.calls(fn):
            f = t.get("f")
            if f and f["id"].rsplit("::", 1)[1] in NOCLAMP and (f["name"].startswith("core::num::") or f["name"].startswith("std::cmp::") or f["name"].startswith("core::cmp::")):
                bad.append(f["name"])
        rems = [st[2]["op"] for b in fn.blocks for st in b["s"] if st[0] == "a" and st[2]["k"] == "bin" and st[2]["op"] in ("Rem", "BitAnd")]
        site = key.rsplit("::", 1)[-1] if "<" not in key else "Vec::" + key.rsplit("::", 1)[-1]
        if bad or rems:
            rep.viol(rule, site, P.where(fn), "index conversion uses %s: an index outside the array is folded onto an existing element instead of failing" % (bad + rems))
        else:
            rep.ok(rule, site, P.where(fn), "no clamping/wrapping operation on the index")
    # negative indices: exactly `max_size + index` on the negative branch
    fn = P.by_key(keys[0])
    if len(fn) == 1:
        fn = fn[0]
        adds = [st for b in fn.blocks for st in b["s"] if st[0] == "a" and st[2]["k"] == "bin" and st[2]["op"].replace("WithOverflow", "") == "Add"]
        subs = [st for b in fn.blocks for st in b["s"] if st[0] == "a" and st[2]["k"] == "bin" and st[2]["op"].replace("WithOverflow", "") in ("Sub", "Mul", "Neg")]
        if len(adds) == 1 and not subs:
            ok_ops = {op_local(adds[0][2]["a"])[0] if op_local(adds[0][2]["a"]) else None, op_local(adds[0][2]["b"])[0] if op_local(adds[0][2]["b"]) else None}
            from mirutil import copy_root
            roots = {copy_root(fn, x) for x in ok_ops if x is not None}
            if roots == {1, 2}:
                rep.ok(rule, "convert_index arithmetic", P.where(fn), "negative index -> max_size + index (parameters themselves, nothing else)")
            else:
                rep.viol(rule, "convert_index arithmetic", P.where(fn), "the negative-index conversion does not add the two parameters")
        else:
            rep.viol(rule, "convert_index arithmetic", P.where(fn), "expected exactly one addition (size + index), found adds=%d other=%d" % (len(adds), len(subs)))


# ---------------------------------------------------------------------------------------
# R-PATHVERBATIM: evaluated index values enter the lookup path unmodified

PATH_ALLOW_LAST = {"evaluate", "try_evaluate", "into_scalar", "as_scalar", "branch", "from_residual", "ok_or_else", "ok_or", "ok", "into_iter",
                   "next", "iter", "as_ref", "deref", "from", "into", "clone", "as_view"}


def run_path_verbatim(P, rep, rule="R-PATHVERBATIM"):
    """Variable::evaluate / try_evaluate: what is pushed onto the Path is the scalar view of the evaluated index expression itself;
    no conversion (to_integer, to_kstr, ScalarCow::new, parse ..) sits between the evaluation and Path::push, so an object key keeps
    its exact spelling and an integer index its value."""
    for key in ("<liquid_core::runtime::variable::Variable>::evaluate", "<liquid_core::runtime::variable::Variable>::try_evaluate"):
        fn = P.fn_by_key(key)
        site = key.rsplit(">::", 1)[0].rsplit("::", 1)[-1] + "::" + key.rsplit("::", 1)[1]
        pushes = [(bi, t) for bi, t in P.calls(fn) if t.get("f") and t["f"]["name"].replace("::<'s>", "").endswith("Path::push")]
        if len(pushes) != 1:
            rep.viol(rule, site, P.where(fn), "expected one Path::push, found %d" % len(pushes))
            continue
        bi, t = pushes[0]
        ol = op_local(t["args"][1])
        locs, calls = backward_slice(fn, ol[0]) if ol else (set(), [])
        evals = [c for c in calls if c.get("f") and c["f"]["id"].rsplit("::", 1)[1] in ("evaluate", "try_evaluate") and "Expression" in c["f"]["name"]]
        bad = [c for c in calls if c.get("f") and c["f"]["id"].rsplit("::", 1)[1] not in PATH_ALLOW_LAST]
        if not evals:
            rep.viol(rule, site, P.where(fn, t["line"]), "the pushed index does not derive from Expression::evaluate/try_evaluate")
        elif bad:
            for c in bad[:3]:
                rep.viol(rule, site + " via " + c["f"]["id"].rsplit("::", 1)[1], P.where(fn, c["line"]),
                         "the index passes through `%s` between its evaluation and Path::push: keys/indexes must reach the lookup exactly as evaluated" % c["f"]["name"])
        else:
            rep.ok(rule, site, P.where(fn, t["line"]), "Path::push(scalar view of the evaluated index); no conversion in between")
