"""Inlined views of MIR bodies.

A shape rule that inspects one function ("the body render call is followed by ...") is defeated by
the most common behaviour-preserving refactoring: moving part of that function into a private
helper. `inlined(P, fn, helpers)` returns a copy of `fn` in which every direct call of one of the
given helper functions (same crate, so the interned type ids agree) is replaced by the helper's own
MIR: locals and blocks are appended with an offset, arguments become assignments to the helper's
parameter locals, `return` becomes an assignment of the helper's _0 to the call's destination
followed by a goto to the call's target. Unwind edges are not part of the facts, so nothing else
needs patching. Inlining is semantics-preserving by construction; it is only ever used to *retry* a
rule that failed on the plain view (see check: retry_inlined).
"""
import copy


def _pl(pl, L):
    return [pl[0] + L, [([e[0], e[1] + L] if e[0] == "i" else e) for e in pl[1]]]


def _op(op, L):
    if op[0] in ("c", "m"):
        return [op[0], _pl(op[1], L)]
    return op


def _rv(rv, L):
    rv = dict(rv)
    for k in ("o", "a", "b"):
        if k in rv and isinstance(rv[k], list):
            rv[k] = _op(rv[k], L)
    if "p" in rv:
        rv["p"] = _pl(rv["p"], L)
    if "ops" in rv:
        rv["ops"] = [_op(o, L) for o in rv["ops"]]
    return rv


def _stmt(st, L):
    if st[0] == "a":
        return ["a", _pl(st[1], L), _rv(st[2], L)] + list(st[3:])
    if st[0] in ("sl", "sd"):
        return [st[0], st[1] + L]
    if st[0] == "sdisc":
        return ["sdisc", _pl(st[1], L), st[2]]
    return st


def _term(t, L, K):
    t = dict(t)
    k = t["k"]
    if k in ("goto", "drop", "assert"):
        t["t"] = t["t"] + K
    if k == "switch":
        t["t"] = [[v, b + K] for v, b in t["t"]]
        t["else"] = t["else"] + K
    if k == "call":
        t["args"] = [_op(a, L) for a in t["args"]]
        t["d"] = _pl(t["d"], L)
        if t.get("t") is not None:
            t["t"] = t["t"] + K
        if "fp" in t:
            t["fp"] = _op(t["fp"], L)
    if k == "tailcall" and "fp" in t:
        t["fp"] = _op(t["fp"], L)
    if k in ("switch", "assert") and "o" in t:
        t["o"] = _op(t["o"], L)
    if "ops" in t:
        t["ops"] = [_op(o, L) for o in t["ops"]]
    if "p" in t:
        t["p"] = _pl(t["p"], L)
    return t


def inlinable(P, caller, g):
    return (g is not None and g.kind in ("fn", "method") and g.crate == caller.crate and g.id != caller.id
            and (g.impl is None or not g.impl.get("trait")) and g.blocks)


def inlined(P, fn, helpers, passes=2):
    """Copy of fn with direct calls of the functions in `helpers` (ids) expanded. Returns (new fn, number of expansions)."""
    from facts import Fn
    new = Fn()
    for a in Fn.__slots__:
        try:
            setattr(new, a, getattr(fn, a))
        except AttributeError:
            pass
    new.locals = list(fn.locals)
    new.names = list(fn.names)
    new.blocks = copy.deepcopy(fn.blocks)
    new._succ = new._pred = new._dom = None
    count = 0
    for _ in range(passes):
        todo = []
        for bi, b in enumerate(new.blocks):
            t = b["t"]
            if t["k"] != "call" or not t.get("f"):
                continue
            g = P.fns.get(t["f"]["id"])
            if g is None or g.id not in helpers or not inlinable(P, fn, g):
                continue
            if len(t["args"]) != g.argc:
                continue  # "rust-call" ABI etc.: leave alone
            todo.append((bi, g))
        if not todo:
            break
        for bi, g in todo:
            b = new.blocks[bi]
            t = b["t"]
            L = len(new.locals)
            K = len(new.blocks)
            new.locals.extend(g.locals)
            for nm in g.names:
                new.names.append([nm[0], _pl(nm[1], L)])
            line = t.get("line", 0)
            for j, a in enumerate(t["args"]):
                b["s"].append(["a", [L + 1 + j, []], {"k": "use", "o": a}, line])
            for gb in g.blocks:
                nb = {"s": [_stmt(st, L) for st in gb["s"]], "t": _term(gb["t"], L, K)}
                if nb["t"]["k"] == "return":
                    nb["s"].append(["a", t["d"], {"k": "use", "o": ["m", [L, []]]}, line])
                    if t.get("t") is None:
                        nb["t"] = {"k": "unreachable", "line": line}
                    else:
                        nb["t"] = {"k": "goto", "t": t["t"], "line": line}
                new.blocks.append(nb)
            b["t"] = {"k": "goto", "t": K, "line": line, "inlined": g.id}
            count += 1
    return new, count


def helpers_of(P, fns, depth=2):
    """Ids of the inlinable private helpers directly called from the given functions (transitively, bounded)."""
    out = set()
    work = [(f, 0) for f in fns]
    seen = set()
    while work:
        f, d = work.pop()
        if f.id in seen or d > depth:
            continue
        seen.add(f.id)
        bodies = [f] + [c for c in P.fns.values() if c.kind == "closure" and c.root == f.id]
        for body in bodies:
            for _, t in P.calls(body):
                if not t.get("f"):
                    continue
                g = P.fns.get(t["f"]["id"])
                if g is not None and inlinable(P, f, g) and not g.pub and not g.trait_default_of:
                    out.add(g.id)
                    work.append((g, d + 1))
    return out
