"""C12 rules: forwarding view impls forward every behaviour-bearing method to the same-named
method; the serde bridge never narrows integers with `as`; derive-generated views agree on
the field set."""
from facts import LIB_CRATES
from mirutil import op_local, all_operands, alias_closure

VV = "liquid_core::model::value::view::ValueView"
OV = "liquid_core::model::object::ObjectView"
AV = "liquid_core::model::array::ArrayView"

FORWARDERS = {
    VV: ["&V", "liquid_core::model::value::cow::ValueCow", "liquid_core::model::value::values::Value", "core::option::Option<T>"],
    OV: ["&O"],
    AV: ["&A"],
}
ALLOWED_CROSS = {("source", "type_name"), ("to_kstr", "render")}


def pure_defaults(P, trait_id):
    """Default methods whose body only calls other methods of the same trait on self (is_scalar = as_scalar().is_some())."""
    t = P.traits.get(trait_id)
    out = set()
    if not t:
        return out
    for m in t["methods"]:
        if not m["has_default"]:
            continue
        fn = P.fns.get(m["id"])
        if fn is None:
            continue
        tc = [c for bi, c in P.calls(fn) if c.get("f") and c["f"].get("trait") == trait_id]
        oc = [c for bi, c in P.calls(fn) if c.get("f") and c["f"]["krate"].startswith("liquid") and c["f"].get("trait") != trait_id]
        if tc and not oc:
            out.add(m["name"])
    return out


def run_forwarders(P, rep, rule="R-FWD.views"):
    for trait_id, selfs in FORWARDERS.items():
        t = P.traits.get(trait_id)
        if t is None:
            rep.anchor_missing(rule, "trait " + trait_id)
            continue
        allm = [m["name"] for m in t["methods"]]
        defaulted = {m["name"] for m in t["methods"] if m["has_default"]}
        pure = pure_defaults(P, trait_id)
        impls = {P.impl_self_str(im): im for im in P.impls_of(trait_id) if im["crate"] == "liquid_core" and not im["expn"]}
        for st in selfs:
            im = impls.get(st)
            tname = trait_id.rsplit("::", 1)[1]
            if im is None:
                rep.anchor_missing(rule, "impl %s for %s" % (tname, st))
                continue
            provided = {it["name"]: it["id"] for it in im["items"] if it["is_fn"]}
            where = "%s:%s" % (im["file"], im["line"])
            short = st.rsplit("::", 1)[-1]
            # 1. every method whose default would change behaviour is overridden
            missing = [m for m in allm if m not in provided and m not in pure]
            if missing:
                rep.viol(rule, "%s for %s overrides" % (tname, short), where,
                         "forwarding impl inherits the trait default for %s: the wrapper answers differently from the value it wraps" % missing)
            else:
                rep.ok(rule, "%s for %s overrides" % (tname, short), where, "overrides all %d behaviour-bearing methods (pure defaults %s inherited)" % (len(provided), sorted(pure)))
            # 2. each method forwards to the same-named method
            for m, fid in sorted(provided.items()):
                fn = P.fns.get(fid)
                if fn is None:
                    continue
                called = {c["f"]["id"].rsplit("::", 1)[1] for bi, c in P.calls(fn) if c.get("f") and c["f"].get("trait") == trait_id}
                # Value dispatches over its variants and may answer Nil/State cases itself
                wrong = {c for c in called if c != m and (m, c) not in ALLOWED_CROSS}
                site = "%s for %s::%s" % (tname, short, m)
                if wrong:
                    rep.viol(rule, site, P.where(fn), "%s forwards to %s instead of the same-named method" % (m, sorted(wrong)))
                elif not called and m != "as_debug" and st not in ("liquid_core::model::value::values::Value",):
                    rep.viol(rule, site, P.where(fn), "%s does not forward to the wrapped value at all" % m)
                else:
                    rep.ok(rule, site, P.where(fn), "forwards to %s" % (sorted(called) or "variant-wise answer"))


def run_cast(P, rep, rule="R-CAST"):
    """No value-changing `as` cast in the serde bridge."""
    n = 0
    for fn in sorted(P.fns.values(), key=lambda f: f.id):
        if fn.crate != "liquid_core" or not fn.file.endswith("ser.rs") or "/model/" not in fn.file or "::test" in fn.id:
            continue
        ordn = 0
        for b in fn.blocks:
            for st in b["s"]:
                if st[0] != "a" or st[2]["k"] != "cast":
                    continue
                ck = st[2]["ck"]
                if ck not in ("IntToInt", "FloatToInt", "IntToFloat", "FloatToFloat"):
                    continue
                frm, to = P.tstr(fn.crate, st[2]["from"]), P.tstr(fn.crate, st[2]["to"])
                n += 1
                site = "%s cast#%d %s->%s" % (fn.key, ordn, frm, to)
                ordn += 1
                if lossless(frm, to):
                    rep.ok(rule, site, P.where(fn, st[3]), "value-preserving widening")
                else:
                    rep.viol(rule, site, P.where(fn, st[3]),
                             "`as` cast %s -> %s in the serde bridge can change the value (wrap, saturate or round): use TryFrom and propagate the error, or carry it as a float"
                             % (frm, to))
    rep.analysed[rule + ".casts"] = n
    rep.count(rule + ".scan")


def bits(t):
    return {"i8": 8, "u8": 8, "i16": 16, "u16": 16, "i32": 32, "u32": 32, "i64": 64, "u64": 64, "isize": 64, "usize": 64,
            "i128": 128, "u128": 128, "f32": 24, "f64": 53, "char": 32, "bool": 1}.get(t)


def lossless(frm, to):
    bf, bt = bits(frm), bits(to)
    if bf is None or bt is None:
        return False
    ff, tf = frm.startswith("f"), to.startswith("f")
    fs, ts = frm.startswith("i"), to.startswith("i")
    if ff and not tf:
        return False
    if not ff and tf:
        return bf <= bt  # integer that fits the mantissa
    if ff and tf:
        return bf <= bt
    if fs == ts:
        return bf <= bt
    if not fs and ts:
        return bf < bt
    return False  # signed -> unsigned


def run_derived(P, rep, rule="R-TABLE.derive"):
    """Every derive(ObjectView, ValueView) struct in the workspace: size/keys/values/iter/contains_key/get/to_value
    agree on the field set, and to_value inserts every field unconditionally."""
    n = 0
    for im in P.impls_of(OV):
        if not im["expn"] or im["crate"] not in LIB_CRATES:
            continue
        st = P.impl_self_str(im)
        tj = P.ty(im["crate"], im["self"])
        adt = P.adts.get(tj.get("id")) if tj["k"] == "adt" else None
        if adt is None:
            continue
        fields = [f["name"] for f in adt["variants"][0]["fields"]]
        n += 1
        items = {it["name"]: P.fns.get(it["id"]) for it in im["items"] if it["is_fn"]}
        vim = [i2 for i2 in P.impls_of(VV) if i2["expn"] and P.impl_self_str(i2) == st]
        vitems = {it["name"]: P.fns.get(it["id"]) for i2 in vim for it in i2["items"] if it["is_fn"]}
        short = st.rsplit("::", 1)[-1].split("<")[0]
        probs = []

        def strs(fn):
            out = set()
            if fn is None:
                return out
            bodies = [fn] + [f for f in P.fns.values() if f.kind == "promoted" and f.raw.get("promoted_of") == fn.id]
            for b in bodies:
                for op in all_operands(b):
                    if op[0] == "k" and "str" in op[1]:
                        out.add(op[1]["str"])
                for blk in b.blocks:
                    for s_ in blk["s"]:
                        if s_[0] == "a" and s_[2]["k"] == "use" and s_[2]["o"][0] == "k" and "str" in s_[2]["o"][1]:
                            out.add(s_[2]["o"][1]["str"])
            return out
        want = set(fields)
        for m in ("keys", "iter", "contains_key", "get"):
            got = strs(items.get(m)) & (want | strs(items.get(m)))
            got = {g for g in got if g in want or g.isidentifier()}
            if got != want:
                probs.append("%s names fields %s, the struct has %s" % (m, sorted(got), sorted(want)))
        tv = vitems.get("to_value")
        if tv is None:
            probs.append("no derived to_value")
        else:
            got = {g for g in strs(tv) if g in want or g.isidentifier()}
            if got != want:
                probs.append("to_value names fields %s, the struct has %s" % (sorted(got), sorted(want)))
            ins = [bi for bi, t in P.calls(tv) if t.get("f") and t["f"]["id"].rsplit("::", 1)[1] == "insert"]
            if len(ins) != len(fields):
                probs.append("to_value inserts %d entries for %d fields" % (len(ins), len(fields)))
            guards = [t["f"]["id"].rsplit("::", 1)[1] for bi, t in P.calls(tv) if t.get("f") and t["f"]["id"].rsplit("::", 1)[1] in
                      ("is_nil", "is_none", "is_some", "is_empty", "query_state")]
            sw = [b for b in tv.blocks if b["t"]["k"] == "switch"]
            if guards or sw:
                probs.append("to_value inserts fields conditionally (%s): the owned form can lack keys the borrowed view exposes" % (guards or "branch"))
        sz = items.get("size")
        if sz is not None:
            consts = [op[1].get("val") for op in all_operands(sz) if op[0] == "k" and "val" in op[1]]
            consts += [s_[2]["o"][1].get("val") for blk in sz.blocks for s_ in blk["s"] if s_[0] == "a" and s_[2]["k"] == "use" and s_[2]["o"][0] == "k"]
            if len(fields) not in consts:
                probs.append("size() does not return the number of fields (%d)" % len(fields))
        if probs:
            for p in probs:
                rep.viol(rule, "derive(ObjectView) for %s" % short, "%s:%s" % (im["file"], im["line"]), p)
        else:
            rep.ok(rule, "derive(ObjectView) for %s" % short, "%s:%s" % (im["file"], im["line"]),
                   "size/keys/iter/contains_key/get/to_value agree on %s; to_value inserts all unconditionally" % sorted(want))
    rep.analysed[rule + ".derived_structs"] = n
    if n == 0:
        rep.anchor_missing(rule, "derived ObjectView impls")


# ---------------------------------------------------------------------------------------
# R-SIBLINGS.str: every string-like scalar answers type_name / query_state through the &str implementation

STRINGLIKE = ["alloc::string::String", "kstring::string::KStringBase", "kstring::string_cow::KStringCowBase", "kstring::string_ref::KStringRef"]


def run_string_siblings(P, rep, rule="R-SIBLINGS.str"):
    """String, KString, KStringCow and KStringRef are sibling implementations of one interface over the same content: their
    query_state (truthy/default/empty/blank) must be the &str implementation's answer, not a private copy of it."""
    impls = {}
    for im in P.impls_of(VV):
        if im["crate"] == "liquid_core" and not im["expn"]:
            impls[P.impl_self_str(im).split("<")[0]] = im
    for st in STRINGLIKE:
        im = impls.get(st)
        short = st.rsplit("::", 1)[-1]
        if im is None:
            rep.anchor_missing(rule, "impl ValueView for " + st)
            continue
        provided = {it["name"]: it["id"] for it in im["items"] if it["is_fn"]}
        for m in ("query_state",):
            fn = P.fns.get(provided.get(m, ""))
            site = "%s::%s" % (short, m)
            if fn is None:
                rep.viol(rule, site, "%s:%s" % (im["file"], im["line"]), "%s is not implemented (trait default would answer)" % m)
                continue
            fn = P.view(fn)
            fw = [t for bi, t in P.calls(fn) if t.get("f") and t["f"].get("trait") == VV and t["f"]["id"].rsplit("::", 1)[1] == m
                  and "self_ty" in t["f"] and P.tstr(fn.crate, t["f"]["self_ty"]) == "&str"]
            branches = [b for b in fn.blocks if b["t"]["k"] == "switch"]
            if len(fw) != 1 or branches:
                rep.viol(rule, site, P.where(fn), "%s for %s does not simply forward to <&str as ValueView>::%s: sibling string types can answer differently "
                         "(e.g. blank for whitespace-only content)" % (m, short, m))
            else:
                rep.ok(rule, site, P.where(fn), "forwards to <&str as ValueView>::%s" % m)


# ---------------------------------------------------------------------------------------
# R-VARIANTKEY: enum variants are keyed by the variant's name, never by the enum's type name

def run_variant_key(P, rep, rule="R-VARIANTKEY"):
    """Every serde `serialize_*_variant` of the model serializers (ValueSerializer, ObjectSerializer, ScalarSerializer,
    MapKeySerializer): the enum type name parameter (`name`) is not used, except when the whole call is forwarded to the
    same method of another serializer — so to_value and to_object tag a variant with the same key."""
    n = 0
    for fn in sorted(P.fns.values(), key=lambda f: f.id):
        if not (fn.crate == "liquid_core" and fn.item_name and fn.item_name.startswith("serialize_") and fn.item_name.endswith("_variant")
                and fn.impl and fn.impl.get("trait") == "serde::ser::Serializer"):
            continue
        n += 1
        site = "%s::%s" % (P.tstr(fn.crate, fn.impl["self"]).rsplit("::", 1)[-1], fn.item_name)
        al = alias_closure(fn, [2])
        bad = []
        for bi, t in P.calls(fn):
            for k, a in enumerate(t["args"]):
                ol = op_local(a)
                if ol and ol[0] in al:
                    f = t.get("f")
                    if f and f["id"].rsplit("::", 1)[1] == fn.item_name and k == 1:
                        continue
                    bad.append((f["name"] if f else "indirect call", t["line"]))
        for b in fn.blocks:
            for st in b["s"]:
                if st[0] == "a" and st[2]["k"] == "agg":
                    for o in st[2].get("ops", []):
                        ol = op_local(o)
                        if ol and ol[0] in al:
                            bad.append(("an aggregate", st[3] if len(st) > 3 else fn.line))
        if bad:
            rep.viol(rule, site, P.where(fn, bad[0][1]), "the enum's type name (`name`) flows into %s: a variant would be tagged with the enum's name instead of the variant's" % bad[0][0])
        else:
            rep.ok(rule, site, P.where(fn), "`name` unused (or forwarded as `name`)")
    if n == 0:
        rep.anchor_missing(rule, "serialize_*_variant methods")


# ---------------------------------------------------------------------------------------
# R-CHARBYTES: the serde char bridge never measures a char in bytes

def run_char_bridge(P, rep, rule="R-CHARBYTES"):
    """serialize_char / deserialize_char of the model (de)serializers: no `str::len` (a byte length): every char serialize_char can
    write — also a multi-byte one — must be accepted back."""
    n = 0
    for fn in sorted(P.fns.values(), key=lambda f: f.id):
        if not (fn.crate == "liquid_core" and fn.item_name in ("serialize_char", "deserialize_char") and "/model/" in fn.file):
            continue
        n += 1
        site = "%s::%s" % (P.tstr(fn.crate, fn.impl["self"]).rsplit("::", 1)[-1] if fn.impl else "?", fn.item_name)
        bad = [t for bi, t in P.calls(fn) if t.get("f") and t["f"]["id"].rsplit("::", 1)[1] == "len" and
               ("str" in t["f"]["name"] or "String" in t["f"]["name"] or "kstring" in t["f"]["name"].lower())]
        if bad:
            rep.viol(rule, site, P.where(fn, bad[0]["line"]), "a byte length (`%s`) decides how a char is converted: multi-byte characters are treated differently from ASCII" % bad[0]["f"]["name"])
        else:
            rep.ok(rule, site, P.where(fn), "no byte-length test")
    if n == 0:
        rep.anchor_missing(rule, "serialize_char/deserialize_char")
