"""R-NOGROW: the loop-selection pipeline only shrinks or permutes the element vector."""
from mirutil import op_local, alias_closure, calls_using

GROW = ("resize", "resize_with", "push", "extend", "extend_from_slice", "insert", "append", "push_within_capacity",
        "extend_from_within", "splice", "fill", "fill_with", "swap_remove_never")
SHRINK_OR_PERMUTE = ("drain", "truncate", "split_off", "reverse", "retain", "len", "is_empty", "into_iter", "iter",
                     "clear", "pop", "remove", "swap", "rotate_left", "rotate_right", "dedup", "deref", "deref_mut", "drop_in_place")


def run(P, rep, key="liquid_lib::stdlib::blocks::for_block::iter_array", rule="R-NOGROW"):
    fn = P.fn_by_key(key)
    # the element vector: parameter 1 (and the value returned)
    al = alias_closure(fn, [1])
    uses = calls_using(fn, al)
    n = 0
    bad = 0
    seen = {}
    for bi, t, pos in uses:
        if 0 not in pos:
            continue
        f = t.get("f")
        last = f["id"].rsplit("::", 1)[1] if f else "?"
        n += 1
        o = seen.get(last, 0)
        seen[last] = o + 1
        site = "iter_array Vec::%s#%d" % (last, o)
        if last in GROW:
            bad += 1
            rep.viol(rule, site, P.where(fn, t["line"]),
                     "the selected-elements vector is passed to `%s`, which can add elements that were never in the collection" % last)
        elif last in SHRINK_OR_PERMUTE:
            rep.ok(rule, site, P.where(fn, t["line"]), "shrinks/permutes/reads only")
        else:
            rep.viol(rule, site, P.where(fn, t["line"]), "unclassified operation `%s` on the selected-elements vector" % last)
    # the function returns that same vector
    ret_ok = 0 in alias_closure(fn, [1]) or any(
        st[0] == "a" and st[1][0] == 0 and st[2]["k"] == "use" and (op_local(st[2]["o"]) or (None,))[0] in al
        for b in fn.blocks for st in b["s"])
    if not ret_ok:
        rep.viol(rule, "iter_array returns-input", P.where(fn), "the function does not return the (shrunk) input vector")
    else:
        rep.ok(rule, "iter_array returns-input", P.where(fn), "returns the input vector")
    rep.analysed[rule + ".vector_ops"] = n
