"""Variant-directed path following: which operations run when a given enum value selects the
arms of the `match`es in a body (used to read decision tables off MIR)."""
from mirutil import op_local


def discr_switches(P, fn, is_scrutinee):
    """block index -> True for blocks whose switch scrutinee is the discriminant of a place
    accepted by is_scrutinee(place)."""
    out = {}
    for bi, b in enumerate(fn.blocks):
        t = b["t"]
        if t["k"] != "switch":
            continue
        ol = op_local(t["o"])
        if not ol:
            continue
        for st in b["s"]:
            if st[0] == "a" and st[1][0] == ol[0] and st[2]["k"] == "discr" and is_scrutinee(st[2]["p"]):
                out[bi] = True
    return out


def arm_region(P, fn, variant, switches, start=0):
    """Blocks executed when every selected switch takes the edge for `variant`."""
    succ = P.succ(fn)
    seen = set()
    work = [start]
    while work:
        bi = work.pop()
        if bi in seen:
            continue
        seen.add(bi)
        t = fn.blocks[bi]["t"]
        if bi in switches:
            nxt = None
            for v, tb in t["t"]:
                if v == variant:
                    nxt = tb
            work.append(nxt if nxt is not None else t["else"])
            continue
        work.extend(succ[bi])
    return seen


def region_facts(P, fn, region):
    """(callee descriptors, constants stored to _0, binary ops) inside a region."""
    calls = []
    consts = set()
    ops = set()
    for bi in sorted(region):
        b = fn.blocks[bi]
        for st in b["s"]:
            if st[0] != "a":
                continue
            rv = st[2]
            if st[1][0] == 0 and not st[1][1]:
                if rv["k"] == "use" and rv["o"][0] == "k":
                    consts.add(rv["o"][1].get("val"))
                else:
                    consts.add("nonconst")
            if rv["k"] == "bin":
                ops.add(rv["op"])
            elif rv["k"] == "un":
                ops.add("un:" + rv["op"])
        t = b["t"]
        if t["k"] == "call":
            if t["d"][0] == 0 and not t["d"][1]:
                consts.add("nonconst")
            f = t.get("f")
            if f:
                calls.append((bi, t))
    return calls, consts, ops


def common_region(P, fn, nvariants, switches):
    """Blocks executed for every variant (prologue/epilogue shared by all arms)."""
    regs = [arm_region(P, fn, v, switches) for v in range(nvariants)]
    c = set(regs[0])
    for r in regs[1:]:
        c &= r
    return regs, c
