"""R-LOCK (lazy partial cache discipline), R-REENTRANT (no re-entrant borrow/lock while a guard
is live), R-AMBIENT (no ambient state read on the render path)."""
from facts import LIB_CRATES
from mirutil import op_local
from origins import SelfOrigins, backward_slice
from r_fwd import field_names

LAZY = "liquid_core::partials::lazy::LazyStore"
GUARD_PREFIXES = ("core::cell::RefMut<", "core::cell::Ref<", "std::sync::poison::mutex::MutexGuard<",
                  "std::sync::mutex::MutexGuard<", "std::sync::poison::rwlock::", "std::sync::rwlock::")


def _methods_of(P, adt_id):
    out = []
    for fn in P.fns.values():
        if fn.impl and fn.kind == "method":
            tj = P.ty(fn.crate, fn.impl["self"])
            if tj["k"] == "adt" and tj["id"] == adt_id:
                out.append(P.view(fn))
    return out


def guard_regions(P, fn):
    """For every local of a guard type defined by a call: (local, def block, blocks where it is live)."""
    out = []
    for bi, t in P.calls(fn):
        d = t["d"]
        if d[1]:
            continue
        ty = P.local_ty(fn, d[0])
        if not ty.startswith(GUARD_PREFIXES):
            continue
        if t["t"] is None:
            continue
        # follow moves of the guard (e.g. Result::expect(lock()) -> guard)
        holders = {d[0]}
        ends = set()
        for i, b in enumerate(fn.blocks):
            tt = b["t"]
            if tt["k"] == "drop" and tt["p"][0] in holders and not tt["p"][1]:
                ends.add(i)
            for st in b["s"]:
                if st[0] == "sd" and st[1] in holders:
                    ends.add(i)
        region = P.reach(fn, [t["t"]], stop=ends)
        out.append((d[0], bi, region, ends, ty))
    return out


def run_lock(P, rep, rule="R-LOCK"):
    ms = {f.item_name: f for f in _methods_of(P, LAZY)}
    for need in ("get_or_create", "try_get_or_create"):
        if need not in ms:
            rep.anchor_missing(rule, "LazyStore::" + need)
            return
    # 1. who touches `cache`
    for fn in _methods_of(P, LAZY):
        names = field_names(P, fn)
        so = SelfOrigins(P, fn)
        touched = {names[k] for k in so.fields_touched() if k < len(names)}
        if "cache" in touched and fn.item_name not in ("get_or_create", "try_get_or_create"):
            rep.viol(rule, "cache touched in LazyStore::" + str(fn.item_name), P.where(fn),
                     "the partial cache is accessed outside get_or_create/try_get_or_create")
    for name in ("get_or_create", "try_get_or_create"):
        fn = ms[name]
        site = "LazyStore::" + name
        where = P.where(fn)
        locks = [(bi, t) for bi, t in P.calls(fn) if t.get("f") and t["f"]["name"].endswith("Mutex::<T>::lock")]
        if len(locks) != 1:
            rep.viol(rule, site + " lock-count", where, "expected exactly one lock acquisition, found %d (check-then-act across two critical sections races)" % len(locks))
            continue
        lb, lt = locks[0]
        # guard local: result of Result::expect/unwrap on the lock result
        regs = [g for g in guard_regions(P, fn) if g[4].startswith(("std::sync::poison::mutex::MutexGuard<", "std::sync::mutex::MutexGuard<"))]
        if len(regs) != 1:
            rep.viol(rule, site + " guard", where, "expected exactly one MutexGuard local, found %d" % len(regs))
            continue
        gl, gb, region, ends, gty = regs[0]
        want = {"lookup": None, "parse": None, "insert": None}
        for bi, t in P.calls(fn):
            f = t.get("f")
            if not f:
                continue
            nm = f["name"]
            if nm.endswith("HashMap::<K, V, S>::get") or nm.endswith("HashMap::<K, V, S, A>::get"):
                want["lookup"] = bi
            elif f["id"] == "liquid_core::parser::parser::parse":
                want["parse"] = bi
            elif nm.endswith("HashMap::<K, V, S>::insert") or nm.endswith("HashMap::<K, V, S, A>::insert"):
                want["insert"] = bi
        miss = [k for k, v in want.items() if v is None]
        if miss:
            rep.viol(rule, site + " shape", where, "cache %s not found in the body" % miss)
            continue
        outside = [k for k, v in want.items() if v not in region]
        if outside:
            rep.viol(rule, site + " critical-section", where,
                     "%s happens outside the single critical section (the guard is dropped too early): two threads can both miss and compile" % outside)
            continue
        # 3. keying by the name parameter itself
        probs = []
        for what, argi in (("lookup", 1), ("insert", 1)):
            t = fn.blocks[want[what]]["t"]
            ol = op_local(t["args"][argi])
            locs, calls = backward_slice(fn, ol[0]) if ol else (set(), [])
            if 2 not in locs:
                probs.append("cache %s key does not derive from the `name` parameter" % what)
            for c in calls:
                f = c.get("f")
                if not f:
                    continue
                last = f["id"].rsplit("::", 1)[1]
                if f["krate"].startswith("liquid") or last in ("trim_end_matches", "strip_suffix", "trim", "to_lowercase",
                                                                  "to_uppercase", "replace", "trim_start_matches", "strip_prefix",
                                                                  "split", "rsplit", "index", "get", "to_ascii_lowercase"):
                    probs.append("cache %s key passes through `%s` (names that differ would share an entry or vice versa)" % (what, f["name"]))
        # source lookup keyed by name as well
        src = [(bi, t) for bi, t in P.calls(fn) if t.get("f") and t["f"].get("trait", "").endswith("PartialSource")
               and t["f"]["id"].rsplit("::", 1)[1] in ("get", "try_get")]
        if len(src) != 1:
            probs.append("expected one PartialSource lookup, found %d" % len(src))
        else:
            ol = op_local(src[0][1]["args"][1])
            locs, calls = backward_slice(fn, ol[0]) if ol else (set(), [])
            if 2 not in locs or any(c.get("f") and c["f"]["krate"].startswith("liquid") for c in calls):
                probs.append("source lookup is not keyed by the `name` parameter itself")
        # 4. inserted value derives from parse(source text, self.language) and nothing else from the workspace
        t = fn.blocks[want["insert"]]["t"]
        ol = op_local(t["args"][2])
        locs, calls = backward_slice(fn, ol[0]) if ol else (set(), [])
        ids = [c["f"]["id"] for c in calls if c.get("f")]
        if "liquid_core::parser::parser::parse" not in ids:
            probs.append("the memoised value is not derived from parser::parse")
        allowed_ws = ("liquid_core::parser::parser::parse", "liquid_core::runtime::template::", "liquid_core::partials::PartialSource::")
        for c in calls:
            f = c.get("f")
            if f and f["krate"].startswith("liquid") and not f["id"].startswith(allowed_ws):
                probs.append("memoised value passes through `%s`" % f["name"])
        pt = fn.blocks[want["parse"]]["t"]
        lol = op_local(pt["args"][1])
        so = SelfOrigins(P, fn)
        names = field_names(P, fn)
        lo = so.place_origin([lol[0], lol[1]]) if lol else None
        if not lo or names[lo[0]] != "language":
            # allow Deref of Arc<Language>
            locs2, calls2 = backward_slice(fn, lol[0]) if lol else (set(), [])
            ok = False
            for l2 in locs2:
                o2 = so.org.get(l2)
                if o2 and names[o2[0]] == "language":
                    ok = True
            if not ok:
                probs.append("parse is not given self.language")
        if probs:
            for p in probs:
                rep.viol(rule, site + " memo", where, p)
        else:
            rep.ok(rule, site, where, "one lock; lookup, compile and insert inside one guard; keyed by `name`; value = parse(source.get(name), self.language)")
        # 5. no re-entrant lock / store lookup inside the critical section
        bad = reentrancy(P, fn, region, targets_pred=lambda g: _locks_or_store(P, g))
        if bad:
            for nm, line, via in bad:
                rep.viol("R-REENTRANT", site + " under-lock " + nm, P.where(fn, line),
                         "`%s` is called while the cache lock is held and can reach %s (self-deadlock)" % (nm, via))
        else:
            rep.ok("R-REENTRANT", site + " under-lock", where, "no callee inside the critical section reaches Mutex::lock or PartialStore::get/try_get")


def _locks_or_store(P, fn):
    for bi, t in P.calls(fn):
        f = t.get("f")
        if f and (f["name"].endswith("Mutex::<T>::lock") or f["name"].endswith("RwLock::<T>::write")):
            return "Mutex::lock in " + fn.key
    if fn.impl and fn.impl.get("trait") == "liquid_core::runtime::partials::PartialStore" and fn.item_name in ("get", "try_get"):
        st = P.tstr(fn.crate, fn.impl["self"])
        if "LazyStore" in st:
            return "LazyStore::" + fn.item_name
    return None


def reentrancy(P, fn, region, targets_pred, skip_callee=lambda f: False):
    """Calls inside `region` whose workspace targets (transitively) satisfy targets_pred."""
    bad = []
    cache = {}
    for bi in sorted(region):
        t = fn.blocks[bi]["t"]
        if t["k"] != "call" or not t.get("f"):
            continue
        if skip_callee(t["f"]):
            continue
        tg = tuple(sorted(P.callee_targets(t)))
        # closures passed as arguments run inside the callee
        extra = []
        for a in t["args"]:
            ol = op_local(a)
            if ol:
                tyj = P.local_tyj(fn, ol[0])
                if tyj["k"] == "closure" and tyj["id"] in P.fns:
                    extra.append(tyj["id"])
        tg = tg + tuple(extra)
        if tg not in cache:
            hit = None
            for g in P.reachable_fns(tg):
                gf = P.fns.get(g)
                if gf is None:
                    continue
                h = targets_pred(gf)
                if h:
                    hit = h
                    break
            cache[tg] = hit
        if cache[tg]:
            bad.append((t["f"]["name"], t["line"], cache[tg]))
    return bad


def run_reentrant_refcell(P, rep, rule="R-REENTRANT"):
    """No RefMut/Ref guard is live across a call that can borrow the same kind of cell again."""
    def borrows(kind):
        def pred(g):
            for bi, t in P.calls(g):
                f = t.get("f")
                if not f:
                    continue
                if kind == "registers" and f["name"].endswith("Registers::get_mut"):
                    return "Registers::get_mut in " + g.key
                if kind in ("frame", "frame-shared") and (f["name"].endswith("RefCell::<T>::borrow_mut") or (
                        kind == "frame" and f["name"].endswith("RefCell::<T>::borrow"))) \
                        and g.impl and "runtime::stack::" in P.tstr(g.crate, g.impl["self"]):
                    return "RefCell borrow in " + g.key
            return None
        return pred

    n = 0
    for fn in sorted(P.fns.values(), key=lambda f: f.id):
        if fn.crate not in LIB_CRATES:
            continue
        for gl, gb, region, ends, gty in guard_regions(P, fn):
            if not gty.startswith(("core::cell::RefMut<", "core::cell::Ref<")):
                continue
            n += 1
            kind = "frame" if "model::object::map::Object" in gty else "registers"
            if kind == "frame" and gty.startswith("core::cell::Ref<"):
                kind = "frame-shared"  # a shared borrow only conflicts with borrow_mut
            site = "%s guard#%d" % (fn.key, sum(1 for o in rep.obligations if o["site"].startswith(fn.key + " guard")))
            skip = lambda f: f["name"].endswith(("::deref", "::deref_mut")) or f["id"].startswith("core::cell::")  # noqa: E731
            bad = reentrancy(P, fn, region, borrows(kind), skip_callee=skip)
            # the defining call itself (get_mut) is in no region; calls ON the guard value are fine unless they re-enter
            if bad:
                for nm, line, via in bad:
                    rep.viol(rule, "%s live-across %s" % (site, nm), P.where(fn, line),
                             "a %s is live while `%s` runs, which can reach %s: RefCell would panic with BorrowMutError"
                             % (gty.split("<")[0].rsplit("::", 1)[1], nm, via))
            else:
                rep.ok(rule, site, P.where(fn, fn.blocks[gb]["t"]["line"]),
                       "no call inside the guard's live range can re-borrow (%s)" % kind)
    rep.analysed[rule + ".guards"] = n


def _gated_by_str_eq(P, fn, target_block, words):
    """target_block is reachable from entry only via the true edge of `x == "<word>"` tests."""
    cut = set()
    for bi, t in P.calls(fn):
        f = t.get("f")
        if not f or not f["id"].endswith("::eq"):
            continue
        consts = [a[1].get("str") for a in t["args"] if a[0] == "k"]
        # the constant may sit behind a reference temp
        for a in t["args"]:
            ol = op_local(a)
            if ol:
                for b in fn.blocks:
                    for st in b["s"]:
                        if st[0] == "a" and st[1][0] == ol[0] and st[2]["k"] == "use" and st[2]["o"][0] == "k":
                            consts.append(st[2]["o"][1].get("str"))
        if not any(c in words for c in consts):
            continue
        d = t["d"][0]
        cur = t["t"]
        for _ in range(6):
            tt = fn.blocks[cur]["t"]
            if tt["k"] == "switch":
                ol = op_local(tt["o"])
                if ol and ol[0] == d:
                    cut.add((cur, tt["else"]))
                break
            if tt["k"] in ("goto", "drop"):
                cur = tt["t"]
            else:
                break
    if not cut:
        return False
    succ = P.succ(fn)
    seen = set()
    work = [0]
    while work:
        b = work.pop()
        if b in seen:
            continue
        seen.add(b)
        for n in succ[b]:
            if (b, n) in cut:
                continue
            work.append(n)
    return target_block not in seen


AMBIENT_NAMES = ("OffsetDateTime::now_utc", "OffsetDateTime::now_local", "SystemTime::now", "Instant::now",
                 "std::env::", "std::fs::", "std::process::id", "std::thread::current", "File::open", "read_to_string")


def render_roots(P):
    roots = []
    tr_methods = {
        "liquid_core::runtime::renderable::Renderable": None,
        "liquid_core::parser::filter::Filter": None,
        "liquid_core::runtime::runtime::Runtime": None,
        "liquid_core::model::value::view::ValueView": None,
        "liquid_core::model::object::ObjectView": None,
        "liquid_core::model::array::ArrayView": None,
        "liquid_core::runtime::partials::PartialStore": ("get", "try_get", "contains", "names"),
    }
    for fn in P.fns.values():
        if fn.crate not in LIB_CRATES:
            continue
        if fn.impl and fn.impl.get("trait") in tr_methods:
            ok = tr_methods[fn.impl["trait"]]
            if ok is None or fn.item_name in ok:
                roots.append(fn.id)
        elif fn.trait_default_of in tr_methods:
            roots.append(fn.id)
        elif fn.key in ("<liquid::template::Template>::render", "<liquid::template::Template>::render_to"):
            roots.append(fn.id)
        elif fn.impl and fn.impl.get("trait") == "core::fmt::Display" and "::model::" in fn.key:
            roots.append(fn.id)
    return roots


def run_ambient(P, rep, rule="R-AMBIENT"):
    roots = render_roots(P)
    reach = P.reachable_fns(roots)
    rep.analysed[rule + ".render_reachable_fns"] = len(reach)
    allowed_fns = {"<liquid_core::model::scalar::datetime::DateTime>::now": "explicit 'now'/'today' input asks for the clock"}
    gated_fns = {"liquid_core::model::scalar::datetime::parse_date_time": ("now", "today")}
    found = 0
    for fid in sorted(reach):
        fn = P.fns[fid]
        if fn.crate not in LIB_CRATES:
            continue
        for bi, t in P.calls(fn):
            f = t.get("f")
            if not f or f["krate"].startswith("liquid"):
                continue
            nm = f["name"]
            if any(a in nm for a in AMBIENT_NAMES):
                found += 1
                if fn.key in allowed_fns:
                    rep.ok(rule, "%s calls %s" % (fn.key, nm), P.where(fn, t["line"]), allowed_fns[fn.key])
                elif fn.key in gated_fns and _gated_by_str_eq(P, fn, bi, gated_fns[fn.key]):
                    rep.ok(rule, "%s calls %s" % (fn.key, nm), P.where(fn, t["line"]),
                           "reachable only through the true edge of a string comparison with %s: the input asks for the clock" % (gated_fns[fn.key],))
                else:
                    rep.viol(rule, "%s calls %s" % (fn.key, nm), P.where(fn, t["line"]),
                             "ambient state `%s` is read on the render path: the result is no longer a function of template, partials and data" % nm)
    # DateTime::now is called only for the literal inputs "now" / "today"
    callers = []
    for fid in reach:
        fn = P.fns[fid]
        for bi, t in P.calls(fn):
            f = t.get("f")
            if f and f["name"].endswith("DateTime::now"):
                callers.append(fn.key)
    for c in sorted(set(callers)):
        if c in ("liquid_core::model::scalar::datetime::parse_date_time",):
            rep.ok(rule, "DateTime::now called by " + c, "-", "inside the 'now'/'today' match arm of the date parser")
        else:
            rep.viol(rule, "DateTime::now called by " + c, "-", "the clock is read outside the date parser's explicit now/today inputs")
    rep.count(rule + ".scan")


# ---------------------------------------------------------------------------------------
# R-GLOBALSET: the library never writes process-wide settings of its dependencies or of std

GLOBAL_SETTERS = ("pest::set_call_limit", "pest::set_error_detail", "std::env::set_var", "std::env::remove_var", "std::env::set_current_dir",
                  "std::panic::set_hook", "std::panic::take_hook", "log::set_max_level", "log::set_logger", "log::set_boxed_logger",
                  "std::process::exit", "std::process::abort", "std::alloc::set_alloc_error_hook")


def run_global_setters(P, rep, rule="R-GLOBALSET"):
    """No library function (parse or render side) calls a setter of process-global state that lives outside the workspace
    (pest's call limit, environment, panic hook ..): two threads using independent parsers/templates would interfere through it.
    Matching is by callee path prefix plus the generic shape `set_*` of a dependency function taking no receiver."""
    n = 0
    bad = 0
    for fn in sorted(P.fns.values(), key=lambda f: f.id):
        if fn.crate not in ("liquid", "liquid_core", "liquid_lib") or "::test" in fn.id:
            continue
        k = 0
        for bi, t in P.calls(fn):
            f = t.get("f")
            if not f or f["krate"].startswith("liquid"):
                continue
            n += 1
            nm = f["name"]
            last = f["id"].rsplit("::", 1)[1]
            hit = any(nm == g or nm.startswith(g + "::") or nm.endswith("::" + g) for g in GLOBAL_SETTERS)
            # generic: a free `set_*` function of a non-std dependency (no receiver argument): a global knob
            if not hit and last.startswith("set_") and not f.get("trait") and "self_ty" not in f and f["krate"] not in ("core", "alloc", "std") \
                    and nm.count("::") <= 1:
                hit = True
            if hit:
                bad += 1
                rep.viol(rule, "%s calls %s#%d" % (fn.key, nm, k), P.where(fn, t["line"]),
                         "`%s` writes process-wide state: independent parsers/templates on other threads observe it (races, cross-talk)" % nm)
                k += 1
    if not bad:
        rep.ok(rule, "extern callees", "-", "%d calls into dependencies/std from library code; none is a process-global setter" % n)
    rep.count(rule + ".scan")
