"""Report object shared by all rules: obligations, violations, counters, floors."""
import json
import os
import time

VERIF = os.path.dirname(os.path.dirname(os.path.abspath(__file__)))


class Report:
    def __init__(self, prop, tier):
        self.prop = prop
        self.tier = tier
        self.t0 = time.time()
        self.obligations = []  # dict(rule, site, where, how)
        self.violations = []  # dict(rule, key, where, what, detail)
        self.counters = {}
        self.notes = []
        self.rules_run = []
        self.unclassified = set()
        self.trusted = set()
        self.analysed = {}

    # an obligation that was discharged
    def ok(self, rule, site, where, how):
        self.obligations.append({"rule": rule, "site": site, "where": where, "how": how, "ok": True})
        self.counters[rule] = self.counters.get(rule, 0) + 1

    # an obligation that failed
    def viol(self, rule, key, where, what, detail=None):
        k = "%s|%s" % (rule, key)
        # disambiguate repeated keys by ordinal (never by line)
        n = sum(1 for v in self.violations if v["base"] == k)
        full = k if n == 0 else "%s#%d" % (k, n)
        self.violations.append(
            {"rule": rule, "key": full, "base": k, "where": where, "what": what, "detail": detail or {}}
        )
        self.obligations.append({"rule": rule, "site": key, "where": where, "how": what, "ok": False})
        self.counters[rule] = self.counters.get(rule, 0) + 1

    def count(self, name, n=1):
        self.counters[name] = self.counters.get(name, 0) + n

    def note(self, s):
        self.notes.append(s)

    def anchor_missing(self, rule, what, detail=""):
        self.viol(rule, "anchor-missing:" + what, "-", "anchor missing: %s %s" % (what, detail), {"kind": "anchor-missing"})

    def check_floors(self, floors):
        for name, lo in sorted(floors.items()):
            have = self.counters.get(name, 0)
            if have < lo:
                self.viol(
                    "FLOOR",
                    name,
                    "-",
                    "rule %s matched %d instances, fewer than the %d confirmed by hand on the pinned tree "
                    "(a rule that matches too little passes vacuously; an instance has disappeared)" % (name, have, lo),
                    {"kind": "floor", "have": have, "floor": lo},
                )


def load_json(rel, default=None):
    p = os.path.join(VERIF, rel)
    if not os.path.exists(p):
        return default
    with open(p) as fh:
        return json.load(fh)
