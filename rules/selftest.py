"""Thorough tier: test the checker both ways.  Each seeded change (seeded/<id>/patch.diff, written
by an independent agent) and each scripted edit (selftest/edits.json) for the property is applied to
a scratch copy of /repo's working tree; the property's quick check must then report a violation.
Nothing here decides the property: results go into the evidence (`selftests`), a stale patch is
recorded as not applicable, and a missed detection is printed as a warning."""
import concurrent.futures
import json
import os
import re
import shutil
import subprocess
import tempfile

from facts import VERIF, REPO


def _cases(prop):
    out = []
    sd = os.path.join(VERIF, "seeded")
    if os.path.isdir(sd):
        for d in sorted(os.listdir(sd)):
            mp = os.path.join(sd, d, "meta.json")
            if os.path.exists(mp):
                m = json.load(open(mp))
                if m.get("property") == prop:
                    out.append({"id": "seed:" + d, "patch": os.path.join(sd, d, "patch.diff"), "expect_rules": (m.get("detected_by") or {}).get(prop, []),
                                "declared_not_decided": m.get("declared_not_decided")})
    ep = os.path.join(VERIF, "selftest", "edits.json")
    if os.path.exists(ep):
        for e in json.load(open(ep)):
            if prop in e["properties"]:
                out.append({"id": "edit:" + e["id"], "edit": e, "expect_rules": e.get("expect_rules", [])})
    return out


def _run_case(prop, case, slot):
    scratch = tempfile.mkdtemp(prefix="lr-selftest-", dir=os.environ.get("TMPDIR", "/var/tmp"))
    res = {"id": case["id"], "expect_rules": case["expect_rules"]}
    try:
        subprocess.check_call(["rsync", "-a", "--exclude", "target", "--exclude", ".git", REPO + "/", scratch + "/"])
        if "patch" in case:
            r = subprocess.run(["patch", "-p1", "-s", "-f", "-d", scratch, "-i", case["patch"]], capture_output=True, text=True)
            if r.returncode != 0:
                res["status"] = "not-applicable (patch does not apply to this tree)"
                return res
        else:
            e = case["edit"]
            p = os.path.join(scratch, e["file"])
            s = open(p).read() if os.path.exists(p) else ""
            if s.count(e["old"]) != 1:
                res["status"] = "not-applicable (anchor text of the scripted edit not found exactly once)"
                return res
            s = s.replace(e["old"], e["new"])
            for o2, n2 in e.get("more", []):
                s = s.replace(o2, n2)
            open(p, "w").write(s)
        env = dict(os.environ)
        env["LR_REPO"] = scratch
        env["LR_TARGET_SLOT"] = "-st%d" % slot
        env["LR_EVIDENCE_DIR"] = os.path.join(scratch, ".evidence")
        env["VERIF_TIER"] = "quick"
        out = subprocess.run([os.path.join(VERIF, "check"), prop, "--tier", "quick"], cwd=VERIF, env=env, capture_output=True, text=True)
        keys = re.findall(r"^  key=(.*)$", out.stdout, re.M)
        rules = sorted(set(k.split("|")[0] for k in keys if not k.startswith("FLOOR")))
        res["rules_fired"] = rules
        if "FACTS|build-failed" in out.stdout or "rule=FACTS" in out.stdout:
            res["status"] = "variant does not compile"
        elif rules:
            res["status"] = "detected"
        elif case.get("declared_not_decided"):
            res["status"] = "not decided (declared N: %s)" % case["declared_not_decided"]
        else:
            res["status"] = "MISSED"
        return res
    finally:
        shutil.rmtree(scratch, ignore_errors=True)


def run(prop, rep, width=4):
    cases = _cases(prop)
    results = []
    with concurrent.futures.ThreadPoolExecutor(max_workers=width) as ex:
        futs = [ex.submit(_run_case, prop, c, i % width) for i, c in enumerate(cases)]
        for f in futs:
            try:
                results.append(f.result())
            except Exception as e:  # noqa: BLE001
                results.append({"id": "?", "status": "error: %s" % e})
    rep.analysed["selftests"] = results
    rep.analysed["selftests_summary"] = {
        "run": len(results),
        "detected": sum(1 for r in results if r.get("status") == "detected"),
        "missed": [r["id"] for r in results if r.get("status") == "MISSED"],
        "not_applicable": [r["id"] for r in results if str(r.get("status", "")).startswith("not-applicable")],
        "declared_not_decided": [r["id"] for r in results if str(r.get("status", "")).startswith("not decided")],
    }
    for r in results:
        if r.get("status") == "MISSED":
            rep.note("self-test WARNING: breaking change %s is no longer detected by the %s check" % (r["id"], prop))
    return results
