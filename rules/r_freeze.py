"""R-FREEZE / R-STATICS / R-AUTO: no interior mutability is reachable from parsed artefacts,
statics are immutable (or lazily initialised regexes), and rustc's own trait solver says the
shared types are Send + Sync while the per-render runtime is not Sync."""
from facts import LIB_CRATES

SKIP_COUNTERS = {"alloc::sync::Arc", "alloc::rc::Rc", "alloc::sync::Weak", "alloc::rc::Weak"}

# ledgered cells: (adt id, field) -> reason
CELL_LEDGER = {
    ("liquid_core::partials::lazy::LazyStore", "cache"):
        "memo of compiled partials; a function of (source, language) only and guarded by one lock — decided by R-LOCK",
}

RENDERABLE = "liquid_core::runtime::renderable::Renderable"
FROZEN_TRAITS = [
    RENDERABLE,
    "liquid_core::parser::filter::Filter",
    "liquid_core::parser::filter::ParseFilter",
    "liquid_core::parser::tag::ParseTag",
    "liquid_core::parser::block::ParseBlock",
    "liquid_core::parser::filter::FilterReflection",
    "liquid_core::parser::tag::TagReflection",
    "liquid_core::parser::block::BlockReflection",
    "liquid_core::runtime::partials::PartialStore",
    "liquid_core::partials::PartialSource",
    "liquid_core::partials::PartialCompiler",
]
FROZEN_ADTS = [
    "liquid::template::Template", "liquid::parser::Parser", "liquid_core::runtime::template::Template",
    "liquid_core::runtime::expression::Expression", "liquid_core::runtime::variable::Variable",
    "liquid_core::parser::filter_chain::FilterChain", "liquid_core::parser::lang::Language",
    "liquid_core::parser::registry::PluginRegistry",
    "liquid_core::model::value::values::Value", "liquid_core::model::object::map::Object",
    "liquid_core::model::scalar::ScalarCow", "liquid_core::model::scalar::ScalarCowEnum",
    "liquid_core::model::value::state::State", "liquid_core::model::scalar::datetime::DateTime",
    "liquid_core::model::scalar::date::Date", "liquid_core::model::value::cow::ValueCow",
]
# per-render types that MUST own cells (so that rendering through &self can keep state there)
PER_RENDER = {
    ("liquid_core::runtime::runtime::Registers", "registers"),
    ("liquid_core::runtime::stack::GlobalFrame", "data"),
    ("liquid_core::runtime::stack::IndexFrame", "data"),
}


class Walker:
    def __init__(self, P):
        self.P = P
        self.memo = {}
        self.dyn_impls = {}

    def tree(self, crate, idx):
        """crate-independent nested representation of a type."""
        t = self.P.ty(crate, idx)
        k = t["k"]
        if k == "adt":
            return ("adt", t["id"], tuple(self.tree(crate, a) for a in t["args"] if isinstance(a, int)),
                    tuple(a if isinstance(a, int) else None for a in t["args"]))
        if k in ("ref", "ptr", "slice", "array"):
            return (k, self.tree(crate, t["t"]))
        if k == "tuple":
            return ("tuple", tuple(self.tree(crate, x) for x in t["of"]))
        if k == "param":
            return ("param", t["i"], t["name"])
        if k == "dyn":
            return ("dyn", tuple(t["traits"]))
        if k == "closure":
            return ("tuple", tuple(self.tree(crate, x) for x in t["upvars"]))
        return ("leaf", k)

    def subst(self, tr, env):
        k = tr[0]
        if k == "param":
            if env is not None and tr[1] < len(env) and env[tr[1]] is not None:
                return env[tr[1]]
            return tr
        if k == "adt":
            return ("adt", tr[1], tuple(self.subst(a, env) for a in tr[2]), tr[3])
        if k in ("ref", "ptr", "slice", "array"):
            return (k, self.subst(tr[1], env))
        if k == "tuple":
            return ("tuple", tuple(self.subst(a, env) for a in tr[1]))
        return tr

    def cells(self, tr, stack=()):
        """List of paths (tuples of strings) to UnsafeCell reachable from the type tree."""
        key = tr
        if key in self.memo:
            return self.memo[key]
        if key in stack:
            return []
        stack = stack + (key,)
        out = []
        k = tr[0]
        if k == "adt":
            aid = tr[1]
            adt = self.P.adts.get(aid)
            if adt is None:
                out = []
            elif adt.get("unsafe_cell"):
                out = [("UnsafeCell",)]
            elif adt.get("phantom"):
                out = []
            elif aid in SKIP_COUNTERS:
                for a in tr[2]:
                    out += [("<%s>" % aid.rsplit("::", 1)[1],) + p for p in self.cells(a, stack)]
            else:
                # environment: generic param index -> type tree (lifetimes occupy indices too)
                env = []
                ti = 0
                gens = adt["generics"]
                targs = list(tr[2])
                for g in gens:
                    if g["kind"] == "ty":
                        env.append(targs[ti] if ti < len(targs) else None)
                        ti += 1
                    else:
                        env.append(None)
                for v in adt["variants"]:
                    for f in v["fields"]:
                        ft = self.subst(self.tree(adt["crate"], f["ty"]), env)
                        for p in self.cells(ft, stack):
                            out.append(("%s.%s" % (aid, f["name"]),) + p)
        elif k in ("ref", "ptr", "slice", "array"):
            out = self.cells(tr[1], stack)
        elif k == "tuple":
            for a in tr[1]:
                out += self.cells(a, stack)
        elif k == "dyn":
            for trait in tr[1]:
                for im in self.P.impls_of(trait):
                    st = self.tree(im["crate"], im["self"])
                    for p in self.cells(st, stack):
                        out.append(("dyn %s => %s" % (trait.rsplit("::", 1)[1], self.P.impl_self_str(im)),) + p)
        # dedupe
        seen = []
        for p in out:
            if p not in seen:
                seen.append(p)
        if len(stack) == 1:
            self.memo[key] = seen
        return seen


def first_cell_field(path):
    """(adt id, field) of the first workspace field on the path that leads to the cell."""
    best = None
    for el in path:
        if "." in el and not el.startswith("dyn ") and not el.startswith("<"):
            aid, fld = el.rsplit(".", 1)
            if aid.startswith("liquid"):
                best = (aid, fld)
    return best


def run_freeze(P, rep, rule="R-FREEZE"):
    w = Walker(P)
    roots = []
    for tr in FROZEN_TRAITS:
        ims = [im for im in P.impls_of(tr) if im["crate"] in LIB_CRATES]
        if not ims and tr in (RENDERABLE,):
            rep.anchor_missing(rule, "impls of " + tr)
        for im in ims:
            roots.append(("impl %s for %s" % (tr.rsplit("::", 1)[1], P.impl_self_str(im)), w.tree(im["crate"], im["self"]),
                          "%s:%s" % (im["file"], im["line"])))
    for aid in FROZEN_ADTS:
        adt = P.adts.get(aid)
        if adt is None:
            rep.anchor_missing(rule, "type " + aid)
            continue
        tr = ("adt", aid, tuple(("param", i, g["name"]) for i, g in enumerate(adt["generics"]) if g["kind"] == "ty"), ())
        roots.append(("type " + aid, tr, "-"))
    used_ledger = set()
    for name, tr, where in roots:
        paths = w.cells(tr)
        bad = []
        for p in paths:
            fld = first_cell_field(p)
            if fld in CELL_LEDGER:
                used_ledger.add(fld)
                continue
            bad.append(p)
        if bad:
            p = bad[0]
            fld = first_cell_field(p)
            rep.viol(rule, "%s cell-at %s.%s" % (name, fld[0] if fld else "?", fld[1] if fld else "?"), where,
                     "interior mutability reachable from a parsed/shared artefact: %s — state could survive a render or be raced"
                     % " -> ".join(p), {"paths": [" -> ".join(x) for x in bad[:5]]})
        else:
            rep.ok(rule, name, where, "deep-frozen (no UnsafeCell reachable through owned fields, Box/Vec/Arc, refs, dyn impls)"
                   + ("; ledgered: LazyStore.cache" if paths else ""))
    rep.analysed[rule + ".roots"] = len(roots)
    for fld in sorted(used_ledger):
        rep.ok(rule + ".ledger", "%s.%s" % fld, "-", CELL_LEDGER[fld])
    # the per-render state cells exist (rendering through &self needs them) and only there
    for aid, fld in sorted(PER_RENDER):
        adt = P.adts.get(aid)
        if adt is None:
            rep.anchor_missing(rule, "type " + aid)
            continue
        tr = ("adt", aid, tuple(("param", i, g["name"]) for i, g in enumerate(adt["generics"]) if g["kind"] == "ty"), ())
        paths = w.cells(tr)
        if any(first_cell_field(p) == (aid, fld) or p[0] == "%s.%s" % (aid, fld) for p in paths):
            rep.ok(rule + ".per-render", "%s.%s" % (aid, fld), "-", "per-render mutable state lives in the runtime layer")
        else:
            rep.viol(rule + ".per-render", "%s.%s" % (aid, fld), "-", "expected per-render RefCell is gone (where did the state move?)")


def run_statics(P, rep, rule="R-STATICS"):
    w = Walker(P)
    n = 0
    for fn in sorted(P.fns.values(), key=lambda f: f.id):
        if fn.kind != "static" or fn.crate not in LIB_CRATES:
            continue
        n += 1
        ty = P.tstr(fn.crate, fn.raw["item_ty"])
        where = P.where(fn)
        if fn.raw.get("static_mut"):
            rep.viol(rule, "static mut " + fn.id, where, "mutable static in a library crate")
            continue
        if fn.raw.get("thread_local"):
            rep.viol(rule, "thread_local " + fn.id, where, "thread-local state in a library crate: survives renders on the same thread")
            continue
        cells = w.cells(w.tree(fn.crate, fn.raw["item_ty"]))
        if not cells:
            rep.ok(rule, fn.id, where, "immutable static of type " + ty)
            continue
        if ty.startswith("std::sync::lazy_lock::LazyLock<regex::regex::string::Regex") or \
           ty.startswith("std::sync::lazy_lock::LazyLock<[regex::regex::string::Regex;"):
            rep.ok(rule, fn.id, where, "LazyLock<Regex..>: write-once initialisation of a constant pattern")
            continue
        rep.viol(rule, "static " + fn.id, where, "static of type %s holds interior-mutable state shared by all renders" % ty)
    rep.analysed[rule + ".statics"] = n
    # thread_local! expands to const/static items inside fns named __KEY / VAL etc.; catch by type
    for fn in P.fns.values():
        if fn.crate in LIB_CRATES and fn.kind in ("const", "static") and "item_ty" in fn.raw:
            ty = P.tstr(fn.crate, fn.raw["item_ty"])
            if ty.startswith("std::thread::local::LocalKey<"):
                rep.viol(rule, "thread_local " + fn.id, P.where(fn), "thread_local! state in a library crate")


AUTO_SPEC = [
    # (type string, send, sync, why)
    ("liquid::parser::Parser", True, True, "parsers are shared across threads"),
    ("liquid::template::Template", True, True, "templates are shared across threads"),
    ("liquid_core::parser::lang::Language", True, True, "held in Arc by every parser"),
    ("liquid_core::runtime::template::Template", True, True, "parsed body"),
    ("alloc::boxed::Box<dyn liquid_core::runtime::renderable::Renderable>", True, True, "element of every template"),
    ("alloc::sync::Arc<dyn liquid_core::runtime::partials::PartialStore+Send+Sync>", True, True, "partials shared by all templates of a parser"),
    ("liquid_core::runtime::runtime::RuntimeCore", False, False, "per-render state is thread-confined"),
    ("liquid_core::runtime::runtime::Registers", None, False, "per-render registers cannot be shared"),
    ("liquid_core::runtime::stack::GlobalFrame<liquid_core::runtime::stack::StackFrame<liquid_core::runtime::stack::IndexFrame<liquid_core::runtime::runtime::RuntimeCore>, &dyn liquid_core::model::object::ObjectView>>",
     None, False, "the runtime built for a render is not Sync, so it cannot be stashed in a Sync template/parser"),
]


def run_autos(P, rep, rule="R-AUTO"):
    a = P.autos()
    for ty, send, sync, why in AUTO_SPEC:
        f = a.get(ty)
        short = ty if len(ty) < 90 else ty[:60] + "...>"
        if f is None:
            rep.anchor_missing(rule, "auto-trait fact for " + short)
            continue
        probs = []
        if send is not None and f["send"] != send:
            probs.append("Send is %s, must be %s" % (f["send"], send))
        if sync is not None and f["sync"] != sync:
            probs.append("Sync is %s, must be %s" % (f["sync"], sync))
        if probs:
            rep.viol(rule, short, "-", "%s (%s)" % ("; ".join(probs), why))
        else:
            rep.ok(rule, short, "-", "rustc trait solver: Send=%s Sync=%s — %s" % (f["send"], f["sync"], why))
    # supertraits: the shared plugin traits demand Send + Sync of every implementor
    for tr in (RENDERABLE, "liquid_core::parser::filter::Filter", "liquid_core::parser::filter::ParseFilter",
               "liquid_core::parser::tag::ParseTag", "liquid_core::parser::block::ParseBlock"):
        t = P.traits.get(tr)
        if t is None:
            rep.anchor_missing(rule, "trait " + tr)
            continue
        sup = set(t.get("supers", []))
        if "core::marker::Send" in sup and "core::marker::Sync" in sup:
            rep.ok(rule, "supertraits of " + tr.rsplit("::", 1)[1], "-", "Send + Sync are supertraits")
        else:
            rep.viol(rule, "supertraits of " + tr.rsplit("::", 1)[1], "-", "trait no longer requires Send + Sync of its implementors")
