"""R-TABLE / R-CONSTRUCT: decision tables and construction shapes read off MIR."""
from mirutil import op_local
from origins import SelfOrigins, backward_slice
from pathsel import discr_switches, arm_region, region_facts, common_region
from r_fwd import field_names
from r_pair import ok_successor

IFB = "liquid_lib::stdlib::blocks::if_block::"


def variants_of(P, adt_id):
    a = P.adts.get(adt_id)
    return [v["name"] for v in a["variants"]] if a else []


# ---------------------------------------------------------------------------------------
# C06: operator table of BinaryCondition::evaluate

OP_TABLE = {
    "Equals": "eq", "NotEquals": "ne", "LessThan": "lt", "GreaterThan": "gt",
    "LessThanEquals": "le", "GreaterThanEquals": "ge", "Contains": "contains_check",
}
CMP_METHODS = ("eq", "ne", "lt", "le", "gt", "ge", "partial_cmp", "cmp")


def run_operator_table(P, rep, rule="R-TABLE.operators"):
    fn = P.fn_by_key("<" + IFB + "BinaryCondition>::evaluate")
    names = field_names(P, fn)
    so = SelfOrigins(P, fn)
    ci = names.index("comparison") if "comparison" in names else None
    if ci is None:
        rep.anchor_missing(rule, "BinaryCondition.comparison")
        return
    variants = variants_of(P, IFB + "ComparisonOperator")
    sw = discr_switches(P, fn, lambda pl: so.place_origin(pl) == (ci,))
    if not sw:
        rep.anchor_missing(rule, "match on self.comparison")
        return
    regs, common = common_region(P, fn, len(variants), sw)
    lhi, rhi = names.index("lh"), names.index("rh")
    for vi, vn in enumerate(variants):
        calls, consts, ops = region_facts(P, fn, regs[vi] - common)
        got = []
        sides_ok = True
        for bi, t in calls:
            f = t["f"]
            last = f["id"].rsplit("::", 1)[1]
            if (f["id"].startswith("core::cmp::") and last in CMP_METHODS) or last == "contains_check":
                got.append(last)
                # operand order: first argument derives from self.lh, second from self.rh
                for k, want in ((0, lhi), (1, rhi)):
                    ol = op_local(t["args"][k]) if len(t["args"]) > k else None
                    if not ol:
                        continue
                    locs, cs = backward_slice(fn, ol[0])
                    flds = set()
                    for l in locs:
                        o = so.org.get(l)
                        if o:
                            flds.add(o[0])
                    if want not in flds or (lhi if want == rhi else rhi) in flds:
                        sides_ok = False
        site = "BinaryCondition `%s`" % vn
        want = OP_TABLE.get(vn)
        if want is None:
            rep.viol(rule, site, P.where(fn), "operator %s is not in the specification table" % vn)
        elif got != [want]:
            rep.viol(rule, site, P.where(fn),
                     "operator %s is evaluated with %s; the value model's `%s` alone must decide it" % (vn, got or "nothing", want))
        elif not sides_ok:
            rep.viol(rule, site + " operands", P.where(fn), "operands are not (self.lh, self.rh) in that order")
        else:
            rep.ok(rule, site, P.where(fn), "decided by ValueViewCmp::%s(lh, rh) only" % want if want != "contains_check" else "decided by contains_check(lh, rh)")
    # operator spelling table: from_str
    fs = P.by_key("<" + IFB + "ComparisonOperator>::from_str")
    if len(fs) == 1:
        spell = {}
        f2 = fs[0]
        # constants compared against, then the variant built on the true edge
        for bi, t in P.calls(f2):
            f = t.get("f")
            if f and f["id"].endswith("::eq"):
                s = None
                for a in t["args"]:
                    if a[0] == "k" and "str" in a[1]:
                        s = a[1]["str"]
                    ol = op_local(a)
                    if ol:
                        for b in f2.blocks:
                            for st in b["s"]:
                                if st[0] == "a" and st[1][0] == ol[0] and st[2]["k"] == "use" and st[2]["o"][0] == "k" and "str" in st[2]["o"][1]:
                                    s = st[2]["o"][1]["str"]
                if s is None:
                    continue
                cur = t["t"]
                tt = f2.blocks[cur]["t"]
                if tt["k"] == "switch":
                    tb = tt["else"]
                    reg = P.reach(f2, [tb])
                    first = None
                    work = [tb]
                    seen = set()
                    while work and first is None:
                        x = work.pop(0)
                        if x in seen:
                            continue
                        seen.add(x)
                        for st in f2.blocks[x]["s"]:
                            if st[0] == "a" and st[2]["k"] == "agg" and st[2].get("id", "").endswith("ComparisonOperator"):
                                first = st[2]["vname"]
                                break
                        work.extend(P.succ(f2)[x])
                    spell[s] = first
        want_spell = {"==": "Equals", "!=": "NotEquals", "<>": "NotEquals", "<": "LessThan", ">": "GreaterThan",
                      "<=": "LessThanEquals", ">=": "GreaterThanEquals", "contains": "Contains"}
        bad = {k: v for k, v in spell.items() if k in want_spell and want_spell[k] != v}
        missing = [k for k in want_spell if k not in spell]
        if bad or missing:
            rep.viol(rule, "ComparisonOperator::from_str", P.where(f2), "operator spelling table differs: wrong %s, missing %s" % (bad, missing))
        else:
            rep.ok(rule, "ComparisonOperator::from_str", P.where(f2), "spellings %s" % sorted(spell.items()))
    else:
        rep.anchor_missing(rule, "ComparisonOperator::from_str")


def run_condition_tree(P, rep, rule="R-TABLE.condition"):
    """Condition::evaluate: Conjunction = left && right, Disjunction = left || right (short circuit edges)."""
    fn = P.fn_by_key("<" + IFB + "Condition>::evaluate")
    variants = variants_of(P, IFB + "Condition")
    so = SelfOrigins(P, fn)
    sw = discr_switches(P, fn, lambda pl: so.place_origin(pl) == ())
    if not sw:
        rep.anchor_missing(rule, "match on *self")
        return
    regs, common = common_region(P, fn, len(variants), sw)
    for vi, vn in enumerate(variants):
        region = regs[vi] - common
        calls, consts, ops = region_facts(P, fn, region)
        evs = [(bi, t) for bi, t in calls if t["f"]["name"].endswith("Condition::evaluate") or t["f"]["name"].endswith("BinaryCondition::evaluate")
               or t["f"]["name"].endswith("ExistenceCondition::evaluate")]
        site = "Condition::" + vn
        if vn in ("Binary", "Existence"):
            if len(evs) == 1 and evs[0][1]["f"]["name"].endswith(vn + "Condition::evaluate"):
                rep.ok(rule, site, P.where(fn), "delegates to %sCondition::evaluate" % vn)
            else:
                rep.viol(rule, site, P.where(fn), "does not simply delegate to %sCondition::evaluate" % vn)
            continue
        if len(evs) != 2:
            rep.viol(rule, site, P.where(fn), "expected two sub-condition evaluations, found %d" % len(evs))
            continue
        # order: the first evaluates field 0 (left), the second field 1 (right)
        (b1, t1), (b2, t2) = sorted(evs, key=lambda x: (x[0] not in P.reach(fn, [0], stop={evs[0][0], evs[1][0]} - {x[0]}), x[0]))
        if b1 in P.reach(fn, P.succ(fn)[b2]) and b2 not in P.reach(fn, P.succ(fn)[b1]):
            (b1, t1), (b2, t2) = (b2, t2), (b1, t1)

        def fld(t):
            ol = op_local(t["args"][0])
            cur = ol[0]
            for _ in range(6):
                for b in fn.blocks:
                    for st in b["s"]:
                        if st[0] == "a" and st[1][0] == cur and not st[1][1]:
                            rv = st[2]
                            pl = rv.get("p") or (op_local(rv["o"]) and [op_local(rv["o"])[0], op_local(rv["o"])[1]]) if rv["k"] in ("ref", "use") else None
                            if pl:
                                fs = [p[1] for p in pl[1] if p[0] == "f"]
                                if pl[0] == 1 or so.org.get(pl[0]) is not None:
                                    if fs:
                                        return fs[-1] if len(fs) else None
                                cur = pl[0]
            return None
        s = ok_successor(P, fn, b1)
        sw2 = None
        cur = s
        for _ in range(8):
            if cur is None:
                break
            tt = fn.blocks[cur]["t"]
            if tt["k"] == "switch":
                sw2 = tt
                break
            cur = tt.get("t") if tt["k"] in ("goto", "drop") else None
        if sw2 is None:
            rep.viol(rule, site, P.where(fn), "no branch on the left operand's result")
            continue
        false_bb = [tb for v, tb in sw2["t"] if v == 0][0]
        true_bb = sw2["else"]
        on_true = b2 in P.reach(fn, [true_bb]) and b2 not in P.reach(fn, [false_bb])
        on_false = b2 in P.reach(fn, [false_bb]) and b2 not in P.reach(fn, [true_bb])
        want_true = vn == "Conjunction"
        if (want_true and on_true) or (not want_true and on_false):
            rep.ok(rule, site, P.where(fn), "right operand evaluated only when the left is %s (%s)" % ("true" if want_true else "false", "and" if want_true else "or"))
        else:
            rep.viol(rule, site, P.where(fn), "%s does not short-circuit like `%s`: right operand runs on the %s edge"
                     % (vn, "&&" if want_true else "||", "true" if on_true else "false" if on_false else "both/neither"))


def run_construct(P, rep, rule="R-CONSTRUCT"):
    """`x or y and z` groups as `x or (y and z)`: Disjunction is built only by parse_condition from
    parse_conjunction_chain results, Conjunction only by parse_conjunction_chain from atoms."""
    makers = {}
    for fn in P.fns.values():
        if not fn.id.startswith("liquid_lib::stdlib::blocks::if_block::") or fn.expn:
            continue  # derive-generated bodies (Clone) re-build variants structurally
        for b in fn.blocks:
            for st in b["s"]:
                if st[0] == "a" and st[2]["k"] == "agg" and st[2].get("id") == IFB + "Condition":
                    makers.setdefault(st[2]["vname"], set()).add(fn.key)
    want = {"Disjunction": {IFB + "parse_condition"}, "Conjunction": {IFB + "parse_conjunction_chain"},
            "Binary": {IFB + "parse_atom_condition"}, "Existence": {IFB + "parse_atom_condition"}}
    for vn, w in sorted(want.items()):
        got = makers.get(vn, set())
        if got != w:
            rep.viol(rule, "Condition::%s built in" % vn, "-", "Condition::%s is constructed in %s; precedence needs exactly %s" % (vn, sorted(got), sorted(w)))
        else:
            rep.ok(rule, "Condition::%s built in" % vn, "-", sorted(w)[0].rsplit("::", 1)[1])

    def callees(key):
        fn = P.fn_by_key(key)
        return {t["f"]["id"] for bi, t in P.calls(fn) if t.get("f") and t["f"]["id"].startswith(IFB + "parse_")}
    chain = [(IFB + "parse_condition", {IFB + "parse_conjunction_chain"}),
             (IFB + "parse_conjunction_chain", {IFB + "parse_atom_condition"}),
             (IFB + "parse_atom_condition", set())]
    for key, w in chain:
        got = callees(key)
        if got != w:
            rep.viol(rule, key.rsplit("::", 1)[1] + " calls", "-", "calls %s, expected %s (or-level over and-level over atoms)" % (sorted(got), sorted(w)))
        else:
            rep.ok(rule, key.rsplit("::", 1)[1] + " calls", "-", "calls %s" % (sorted(x.rsplit("::", 1)[1] for x in w) or "no condition parser"))
    # the loop keywords: "or" in parse_condition, "and" in parse_conjunction_chain
    for key, word in ((IFB + "parse_condition", "or"), (IFB + "parse_conjunction_chain", "and")):
        fn = P.fn_by_key(key)
        strs = set()
        from mirutil import all_operands
        for op in all_operands(fn):
            if op[0] == "k" and "str" in op[1]:
                strs.add(op[1]["str"])
        other = "and" if word == "or" else "or"
        if word in strs and other not in strs:
            rep.ok(rule, key.rsplit("::", 1)[1] + " keyword", P.where(fn), "loops on `%s`" % word)
        else:
            rep.viol(rule, key.rsplit("::", 1)[1] + " keyword", P.where(fn), "keyword constants %s; expected to loop on `%s` only" % (sorted(s for s in strs if s in ("and", "or")), word))


def run_existence(P, rep, rule="R-TABLE.existence"):
    fn = P.fn_by_key("<" + IFB + "ExistenceCondition>::evaluate")
    names = [t["f"]["id"].rsplit("::", 1)[1] for bi, t in P.calls(fn) if t.get("f")]
    probs = []
    if "try_evaluate" not in names:
        probs.append("does not use the non-failing lookup try_evaluate (an undefined name must count as nil, not raise)")
    if "evaluate" in names:
        probs.append("uses the failing lookup evaluate")
    qs = [t for bi, t in P.calls(fn) if t.get("f") and t["f"]["id"].endswith("ValueView::query_state")]
    if len(qs) != 1:
        probs.append("expected one query_state call")
    else:
        a = qs[0]["args"][1]
        val = None
        if a[0] == "k":
            val = a[1].get("val")
        else:
            ol = op_local(a)
            for b in fn.blocks:
                for st in b["s"]:
                    if st[0] == "a" and st[1][0] == ol[0]:
                        rv = st[2]
                        if rv["k"] == "agg":
                            val = rv.get("vname")
                        elif rv["k"] == "use" and rv["o"][0] == "k":
                            val = rv["o"][1].get("val")
        if val not in ("Truthy", 0):
            probs.append("bare condition queries state %r instead of Truthy" % (val,))
    if "not" in names or any(st[0] == "a" and st[2]["k"] == "un" and st[2]["op"] == "Not" for b in fn.blocks for st in b["s"]):
        probs.append("negates the truthiness")
    if probs:
        for p in probs:
            rep.viol(rule, "ExistenceCondition::evaluate", P.where(fn), p)
    else:
        rep.ok(rule, "ExistenceCondition::evaluate", P.where(fn), "try_evaluate(..).unwrap_or_default().query_state(Truthy)")


# truth table: type -> (Truthy, DefaultValue, Empty, Blank); True/False constants, "*" = computed
TRUTH = {
    "i64": (True, False, False, False),
    "f64": (True, False, False, False),
    "liquid_core::model::scalar::datetime::DateTime": (True, False, False, False),
    "liquid_core::model::scalar::date::Date": (True, False, False, False),
    "bool": ("*", "*", False, "*"),
    "&str": (True, "*", "*", "*"),
    "alloc::vec::Vec<T>": (True, "*", "*", "*"),
    "liquid_core::model::object::map::Object": (True, "*", "*", "*"),
    "liquid_core::runtime::runtime::NullObject": (True, False, False, False),
}


def run_truth_table(P, rep, rule="R-TABLE.truth"):
    VV = "liquid_core::model::value::view::ValueView"
    states = variants_of(P, "liquid_core::model::value::state::State")
    if states != ["Truthy", "DefaultValue", "Empty", "Blank"]:
        rep.viol(rule, "State variants", "-", "State enum is %s" % states)
        return
    found = {}
    for im in P.impls_of(VV):
        if im["crate"] != "liquid_core":
            continue
        st = P.impl_self_str(im)
        fid = [it["id"] for it in im["items"] if it["name"] == "query_state"]
        fn = P.fns.get(fid[0]) if fid else None
        if fn is None:
            continue
        found[st] = fn
    for ty, want in sorted(TRUTH.items()):
        fn = found.get(ty)
        if fn is None:
            rep.anchor_missing(rule, "query_state of " + ty)
            continue
        sw = discr_switches(P, fn, lambda pl: pl[0] == 2)
        # `state` may be copied to a temp first
        if not sw:
            al = {2}
            for b in fn.blocks:
                for s_ in b["s"]:
                    if s_[0] == "a" and s_[2]["k"] == "use" and (op_local(s_[2]["o"]) or (None,))[0] in al:
                        al.add(s_[1][0])
            sw = discr_switches(P, fn, lambda pl: pl[0] in al)
        if not sw:
            rep.viol(rule, ty, P.where(fn), "query_state does not branch on the state")
            continue
        regs, common = common_region(P, fn, 4, sw)
        row = []
        for vi in range(4):
            calls, consts, ops = region_facts(P, fn, regs[vi] - common)
            if consts == {1}:
                row.append(True)
            elif consts == {0}:
                row.append(False)
            else:
                row.append("*")
        if tuple(row) != want:
            diffs = ["%s: %s (spec %s)" % (states[i], row[i], want[i]) for i in range(4) if row[i] != want[i]]
            rep.viol(rule, ty, P.where(fn), "truthiness table of %s differs: %s" % (ty.rsplit("::", 1)[-1], "; ".join(diffs)))
        else:
            rep.ok(rule, ty, P.where(fn), "Truthy/Default/Empty/Blank = %s" % (row,))
    # Value::query_state: Nil -> (F,T,T,T), others delegate
    fn = found.get("liquid_core::model::value::values::Value")
    if fn is None:
        rep.anchor_missing(rule, "Value::query_state")
        return
    kinds = variants_of(P, "liquid_core::model::value::values::Value")
    so = SelfOrigins(P, fn)
    swk = discr_switches(P, fn, lambda pl: so.place_origin(pl) == ())
    al = {2}
    for b in fn.blocks:
        for s_ in b["s"]:
            if s_[0] == "a" and s_[2]["k"] == "use" and (op_local(s_[2]["o"]) or (None,))[0] in al:
                al.add(s_[1][0])
    sws = discr_switches(P, fn, lambda pl: pl[0] in al)
    if "Nil" not in kinds or not swk:
        rep.viol(rule, "Value", P.where(fn), "Value::query_state does not branch on the value kind")
        return
    ni = kinds.index("Nil")
    row = []
    for vi in range(4):
        sel = dict(swk)
        reg_k = arm_region(P, fn, ni, swk)
        # within the Nil arm follow the state
        succ = P.succ(fn)
        seen = set()
        work = [0]
        consts = set()
        while work:
            bi = work.pop()
            if bi in seen:
                continue
            seen.add(bi)
            t = fn.blocks[bi]["t"]
            for st in fn.blocks[bi]["s"]:
                if st[0] == "a" and st[1][0] == 0 and not st[1][1]:
                    rv = st[2]
                    consts.add(rv["o"][1].get("val") if rv["k"] == "use" and rv["o"][0] == "k" else "nonconst")
            if t["k"] == "call" and t["d"][0] == 0:
                consts.add("nonconst")
            if bi in swk or bi in sws:
                want_v = ni if bi in swk else vi
                nxt = None
                for v, tb in t["t"]:
                    if v == want_v:
                        nxt = tb
                work.append(nxt if nxt is not None else t["else"])
                continue
            work.extend(succ[bi])
        row.append(True if consts == {1} else False if consts == {0} else "*")
    if tuple(row) != (False, True, True, True):
        rep.viol(rule, "Value::Nil", P.where(fn), "nil answers Truthy/Default/Empty/Blank = %s, must be (False, True, True, True)" % (row,))
    else:
        rep.ok(rule, "Value::Nil", P.where(fn), "nil is falsy, default, empty and blank")


# ---------------------------------------------------------------------------------------
# C16: entity tables, URL set, strict decode

def str_consts(P, fn, with_promoted=True):
    from mirutil import all_operands
    out = []
    bodies = [fn]
    if with_promoted:
        bodies += [f for f in P.fns.values() if f.kind == "promoted" and f.raw.get("promoted_of") == fn.id]
    for b in bodies:
        for op in all_operands(b):
            if op[0] == "k" and "str" in op[1]:
                out.append(op[1]["str"])
        for blk in b.blocks:
            for st in blk["s"]:
                if st[0] == "a" and st[2]["k"] == "use" and st[2]["o"][0] == "k" and "str" in st[2]["o"][1]:
                    out.append(st[2]["o"][1]["str"])
    return out


ENTITY_SPEC = {60: "&lt;", 62: "&gt;", 39: "&#39;", 34: "&quot;", 38: "&amp;"}


def run_entities(P, rep, rule="R-TABLE.entities"):
    H = "liquid_lib::stdlib::filters::html::"
    esc = P.fn_by_key(H + "escape")
    nr = P.fn_by_key(H + "nr_escaped")
    E = {s for s in str_consts(P, esc) if s.startswith("&") and s.endswith(";")}
    Pfx = set(str_consts(P, nr))
    if E != set(ENTITY_SPEC.values()):
        rep.viol(rule, "escape entity set", P.where(esc), "escape emits entities %s; the five entities are %s" % (sorted(E), sorted(ENTITY_SPEC.values())))
    else:
        rep.ok(rule, "escape entity set", P.where(esc), "emits exactly %s" % sorted(E))
    want = {e[1:] for e in E}
    if Pfx != want:
        rep.viol(rule, "nr_escaped prefixes", P.where(nr),
                 "escape_once recognises %s after `&` but escape emits %s: an existing entity would be re-escaped or a near-entity left raw"
                 % (sorted(Pfx), sorted(want)))
    else:
        rep.ok(rule, "nr_escaped prefixes", P.where(nr), "prefixes = entities without `&` (including the terminating `;`)")
    # nr_escaped returns prefix.len() only after starts_with(prefix)
    names = [t["f"]["id"].rsplit("::", 1)[1] for bi, t in P.calls(nr) if t.get("f")]
    adds = [st for b in nr.blocks for st in b["s"] if st[0] == "a" and st[2]["k"] == "bin" and st[2]["op"].replace("WithOverflow", "") in ("Add", "Sub", "Mul")]
    if "starts_with" not in names or "len" not in names or adds:
        rep.viol(rule, "nr_escaped shape", P.where(nr), "nr_escaped is not `if text.starts_with(p) { return p.len() }` (calls %s, arithmetic %d)" % (sorted(set(names)), len(adds)))
    else:
        rep.ok(rule, "nr_escaped shape", P.where(nr), "returns len of the matched prefix, nothing added")
    # char -> entity mapping in escape
    mapping = {}
    for bi, b in enumerate(esc.blocks):
        t = b["t"]
        if t["k"] != "switch":
            continue
        ol = op_local(t["o"])
        if not ol or P.local_ty(esc, ol[0]) != "char":
            continue
        for v, tb in t["t"]:
            # first string constant assigned on the straight-line path from the target
            cur = tb
            found = None
            for _ in range(4):
                blk = esc.blocks[cur]
                for st in blk["s"]:
                    if st[0] == "a" and st[2]["k"] == "use" and st[2]["o"][0] == "k" and "str" in st[2]["o"][1] and found is None:
                        found = st[2]["o"][1]["str"]
                if found or blk["t"]["k"] != "goto":
                    break
                cur = blk["t"]["t"]
            if found and found.startswith("&") and found.endswith(";"):
                mapping[v] = found
    bad = {chr(k): v for k, v in mapping.items() if ENTITY_SPEC.get(k) != v}
    missing = [chr(k) for k in ENTITY_SPEC if k not in mapping and k != 38]
    if bad or missing:
        rep.viol(rule, "escape char->entity", P.where(esc), "character-to-entity table differs: wrong %s, missing %s" % (bad, missing))
    else:
        rep.ok(rule, "escape char->entity", P.where(esc), "%s" % {chr(k): v for k, v in sorted(mapping.items())})


def run_url(P, rep, rule="R-TABLE.url"):
    U = "liquid_lib::stdlib::filters::url::"
    fr = P.by_key(U + "FRAGMENT")
    if len(fr) != 1:
        rep.anchor_missing(rule, "const FRAGMENT")
        return
    fr = fr[0]
    removed = []
    adds = []
    base = None
    bodies = [fr] + [f for f in P.fns.values() if f.kind == "promoted" and f.raw.get("promoted_of") == fr.id]
    for b in bodies:
        for bi, t in P.calls(b):
            f = t.get("f")
            if not f:
                continue
            last = f["id"].rsplit("::", 1)[1]
            if "AsciiSet" in f["name"] and last == "remove":
                removed += [a[1].get("val") for a in t["args"] if a[0] == "k" and "val" in a[1]]
            elif "AsciiSet" in f["name"] and last == "add":
                adds += [a[1].get("val") for a in t["args"] if a[0] == "k" and "val" in a[1]]
        from mirutil import all_operands
        for op in all_operands(b):
            if op[0] == "k" and op[1].get("uneval", "").endswith("NON_ALPHANUMERIC"):
                base = "NON_ALPHANUMERIC"
        for blk in b.blocks:
            for st in blk["s"]:
                if st[0] == "a" and st[2]["k"] == "use" and st[2]["o"][0] == "k" and st[2]["o"][1].get("uneval", "").endswith("NON_ALPHANUMERIC"):
                    base = "NON_ALPHANUMERIC"
    if base != "NON_ALPHANUMERIC" or sorted(removed) != [45, 46, 95] or adds:
        rep.viol(rule, "FRAGMENT set", P.where(fr), "url_encode's set is %s minus %s plus %s; it must be NON_ALPHANUMERIC minus '-', '.', '_'"
                 % (base, [chr(x) for x in removed if x is not None], adds))
    else:
        rep.ok(rule, "FRAGMENT set", P.where(fr), "NON_ALPHANUMERIC minus {'-', '.', '_'}")
    # encode: every non-nil result derives from utf8_percent_encode(.., FRAGMENT)
    enc = P.fn_by_key("<%sUrlEncodeFilter as liquid_core::parser::filter::Filter>::evaluate" % U)
    _all_results_from(P, rep, rule, enc, "UrlEncode", "utf8_percent_encode", need_const="FRAGMENT")
    dec = P.fn_by_key("<%sUrlDecodeFilter as liquid_core::parser::filter::Filter>::evaluate" % U)
    names = [t["f"]["id"].rsplit("::", 1)[1] for bi, t in P.calls(dec) if t.get("f")]
    probs = []
    if "decode_utf8" not in names or "decode_utf8_lossy" in names:
        probs.append("url_decode does not use the strict decode_utf8 (invalid UTF-8 must be an error)")
    if "percent_decode" not in names:
        probs.append("percent_decode is not applied")
    if "replace" not in names:
        probs.append("'+' is not translated to a space")
    # one layer of encoding is removed, exactly: a second percent_decode (or one in a loop) turns a literal `%25..` that url_encode
    # produced for `%..` back into an escape and decodes it again, so url_decode no longer inverts url_encode
    for who, body, op_ in (("url_decode", dec, "percent_decode"), ("url_encode", enc, "utf8_percent_encode")):
        sites = [bi for bi, t in P.calls(body) if t.get("f") and t["f"]["id"].rsplit("::", 1)[1] == op_]
        looped = [bi for bi in sites if bi in P.reach(body, P.succ(body)[bi])]
        if len(sites) > 1 or looped:
            probs.append("%s applies %s %s: exactly one layer of percent-encoding is added / removed per filter application"
                         % (who, op_, "inside a loop" if looped else "%d times" % len(sites)))
    from r_lookup import must_propagate
    if probs:
        for p in probs:
            rep.viol(rule, "UrlDecode", P.where(dec), p)
    else:
        rep.ok(rule, "UrlDecode", P.where(dec), "'+' -> ' ', percent_decode, strict decode_utf8")
    import r_wprop
    old = r_wprop.is_adapter
    try:
        r_wprop.is_adapter = lambda f, _o=old: _o(f) or f["name"].endswith(">::map_err") or f["name"].endswith("::map_err")
        must_propagate(P, rep, rule, dec.key, lambda f: f["id"].rsplit("::", 1)[1] == "decode_utf8", "decode_utf8")
    finally:
        r_wprop.is_adapter = old
    _all_results_from(P, rep, rule, dec, "UrlDecode", "decode_utf8")


def _all_results_from(P, rep, rule, fn, label, producer, need_const=None):
    """Every Ok(Value::scalar(x)) returned by fn has x derived from a call named `producer`."""
    bad = 0
    n = 0
    for bi, t in P.calls(fn):
        f = t.get("f")
        if f and f["name"].endswith("Value::scalar"):
            n += 1
            ol = op_local(t["args"][0])
            locs, calls = backward_slice(fn, ol[0]) if ol else (set(), [])
            prods = [c for c in calls if c.get("f") and c["f"]["id"].rsplit("::", 1)[1] == producer]
            if not prods:
                bad += 1
                rep.viol(rule, "%s bypass" % label, P.where(fn, t["line"]),
                         "a result is returned that does not come from %s: some inputs skip the %s step" % (producer, label))
            elif need_const:
                okc = False
                for c in prods:
                    for a in c["args"]:
                        if a[0] == "k" and a[1].get("uneval", "").endswith(need_const):
                            okc = True
                        ol2 = op_local(a)
                        if ol2:
                            for blk in fn.blocks:
                                for st in blk["s"]:
                                    if st[0] == "a" and st[1][0] == ol2[0] and st[2]["k"] == "use" and st[2]["o"][0] == "k" and st[2]["o"][1].get("uneval", "").endswith(need_const):
                                        okc = True
                if not okc:
                    bad += 1
                    rep.viol(rule, "%s set" % label, P.where(fn, t["line"]), "%s is not given the constant %s" % (producer, need_const))
    if n and not bad:
        rep.ok(rule, "%s results" % label, P.where(fn), "every returned scalar derives from %s" % producer)
    elif not n:
        rep.viol(rule, "%s results" % label, P.where(fn), "no Value::scalar result found")


# ---------------------------------------------------------------------------------------
# C17: strftime directive table, writer/reader format agreement, offset pattern

DIRECTIVE_SPEC = {
    # directive characters -> accessors of time::OffsetDateTime that feed them (read off the pinned tree and
    # checked against the strftime documentation)
    "%nt": (), "FvDx": ("day", "month", "year"), "GgV": ("to_iso_week_date",), "HkIlPp": ("hour",), "LN": ("nanosecond",),
    "M": ("minute",), "R": ("hour", "minute"), "S": ("second",), "TXr": ("hour", "minute", "second"),
    "U": ("sunday_based_week",), "W": ("monday_based_week",), "YCy": ("year",), "aA": ("weekday",),
    "c": ("day", "hour", "minute", "month", "second", "weekday", "year"), "de": ("day",), "j": ("ordinal",), "mbhB": ("month",),
    "s": ("unix_timestamp",), "u": ("number_from_monday", "weekday"), "w": ("number_days_from_sunday", "weekday"),
    "zZ:": ("is_negative", "minutes_past_hour", "offset", "seconds_past_minute", "whole_hours"),
}


def run_directives(P, rep, rule="R-TABLE.strftime"):
    fn = P.fn_by_key("liquid_core::model::scalar::datetime::strftime::strftime")
    best = None
    for bi, b in enumerate(fn.blocks):
        t = b["t"]
        if t["k"] == "switch":
            ol = op_local(t["o"])
            if ol and P.local_ty(fn, ol[0]) == "char" and (best is None or len(t["t"]) > len(fn.blocks[best]["t"]["t"])):
                best = bi
    if best is None or len(fn.blocks[best]["t"]["t"]) < 30:
        rep.anchor_missing(rule, "directive match in strftime")
        return
    t = fn.blocks[best]["t"]
    targets = sorted(set(tb for v, tb in t["t"]))
    regs = {tb: P.reach(fn, [tb], stop={best}) for tb in targets}
    common = set.intersection(*[regs[tb] for tb in targets])
    got = {}
    for v, tb in t["t"]:
        names = set()
        work = list(regs[tb] - common)
        seen_fns = set()
        for bi in work:
            tt = fn.blocks[bi]["t"]
            if tt["k"] == "call" and tt.get("f"):
                f = tt["f"]
                if f["krate"] == "time":
                    names.add(f["name"].split("::")[-1])
                elif f["krate"].startswith("liquid") and not f.get("trait"):
                    # helper functions are inlined one level
                    for tg in P.callee_targets(tt):
                        g = P.fns.get(tg)
                        if g is not None and g.id not in seen_fns:
                            seen_fns.add(g.id)
                            for b2, t2 in P.calls(g):
                                if t2.get("f") and t2["f"]["krate"] == "time":
                                    names.add(t2["f"]["name"].split("::")[-1])
        got[chr(v)] = tuple(sorted(names))
    want = {}
    for chars, acc in DIRECTIVE_SPEC.items():
        for c in chars:
            want[c] = acc
    n_ok = 0
    for c in sorted(want):
        if c not in got:
            rep.viol(rule, "directive %%%s" % c, P.where(fn), "directive %%%s is no longer handled by its own arm" % c)
        elif got[c] != want[c]:
            rep.viol(rule, "directive %%%s" % c, P.where(fn),
                     "%%%s is computed from %s; its documented meaning needs exactly %s" % (c, list(got[c]), list(want[c])))
        else:
            n_ok += 1
            rep.ok(rule, "directive %%%s" % c, P.where(fn), "fed by %s" % (list(want[c]) or "no calendar field"))
    for c in sorted(set(got) - set(want)):
        rep.viol(rule, "directive %%%s" % c, P.where(fn), "new directive %%%s is not in the specification table" % c)


def const_refs(P, fn):
    from mirutil import all_operands
    out = set()
    bodies = [fn] + [f for f in P.fns.values() if f.kind == "promoted" and f.raw.get("promoted_of") == fn.id]
    for b in bodies:
        for op in all_operands(b):
            if op[0] == "k" and "uneval" in op[1]:
                out.add(op[1]["uneval"])
        for blk in b.blocks:
            for st in blk["s"]:
                if st[0] == "a" and st[2]["k"] == "use" and st[2]["o"][0] == "k" and "uneval" in st[2]["o"][1]:
                    out.add(st[2]["o"][1]["uneval"])
    return out


def const_refs_deep(P, fn, depth=2):
    """const_refs of a body and of the private (non-pub) functions of the same file it calls — a format selection that was
    extracted into a helper still belongs to its callers."""
    out = set(const_refs(P, fn))
    if depth <= 0:
        return out
    for bi, t in P.calls(fn):
        f = t.get("f")
        g = P.fns.get(f["id"]) if f else None
        if g is not None and g.file == fn.file and not g.pub and g.id != fn.id:
            out |= const_refs_deep(P, g, depth - 1)
    return out


def run_date_formats(P, rep, rule="R-TABLE.dateformats"):
    D = "liquid_core::model::scalar::datetime::"
    disp = P.fn_by_key("<%sDateTime as core::fmt::Display>::fmt" % D)
    parse = P.fn_by_key(D + "parse_date_time")
    w = {c for c in const_refs_deep(P, disp) if "FORMAT" in c}
    r = set()
    todo = [c for c in const_refs(P, parse)]
    seen = set()
    while todo:
        c = todo.pop()
        if c in seen:
            continue
        seen.add(c)
        if "FORMAT" in c and "USER_FORMATS" not in c:
            r.add(c)
        cf = P.fns.get(c)
        if cf is not None:
            todo += list(const_refs(P, cf))
    if not w:
        rep.viol(rule, "Display formats", P.where(disp), "no format constants found in Display for DateTime")
    elif not w <= r:
        rep.viol(rule, "Display formats parse back", P.where(parse),
                 "Display for DateTime prints with %s but parse_date_time only accepts %s: the default printed form does not parse back"
                 % (sorted(x.rsplit("::", 1)[1] for x in w), sorted(x.rsplit("::", 1)[1] for x in r)))
    else:
        rep.ok(rule, "Display formats parse back", P.where(parse), "printed with %s, all accepted by the parser" % sorted(x.rsplit("::", 1)[1] for x in w))
    # serde (friendly_date_time) writes and reads with the same two constants
    ser = [f for f in P.fns.values() if f.id.startswith(D + "friendly_date_time::serialize")]
    de = [f for f in P.fns.values() if f.id.startswith(D + "friendly_date_time::deserialize")]
    ws, rs = set(), set()
    for f in ser:
        ws |= {c for c in const_refs_deep(P, f) if "FORMAT" in c}
    for f in de:
        rs |= {c for c in const_refs_deep(P, f) if "FORMAT" in c}
    if ws and ws == rs:
        rep.ok(rule, "friendly_date_time", "-", "serialize and deserialize use %s" % sorted(x.rsplit("::", 1)[1] for x in ws))
    else:
        rep.viol(rule, "friendly_date_time", "-", "serde writer uses %s but reader %s" % (sorted(ws), sorted(rs)))
    # same for Date: serde reads exactly the format it writes, and not through the lenient parser
    DD = "liquid_core::model::scalar::date::"
    ser = [f for f in P.fns.values() if f.id.startswith(DD + "friendly_date::serialize")]
    de = [f for f in P.fns.values() if f.id.startswith(DD + "friendly_date::deserialize")]
    ws, rs = set(), set()
    lenient = False
    for f in ser:
        ws |= {c for c in const_refs(P, f) if "FORMAT" in c}
    for f in de:
        rs |= {c for c in const_refs(P, f) if "FORMAT" in c}
        for bi, t in P.calls(f):
            if t.get("f") and t["f"]["id"].rsplit("::", 1)[1] in ("parse_date", "parse_date_time", "from_str"):
                lenient = True
    if ws and ws == rs and not lenient:
        rep.ok(rule, "friendly_date", "-", "serialize and deserialize use %s" % sorted(x.rsplit("::", 1)[1] for x in ws))
    else:
        rep.viol(rule, "friendly_date", "-", "serde writer of Date uses %s but the reader %s%s: strings that merely look like dates change kind on a serde round trip"
                 % (sorted(x.rsplit("::", 1)[1] for x in ws), sorted(x.rsplit("::", 1)[1] for x in rs), " plus the lenient template date parser" if lenient else ""))
    # the offset-detection pattern accepts every offset the printed form can carry
    import re
    pats = sorted({s for s in str_consts(P, parse) if "[" in s and "$" in s})
    if len(pats) != 1:
        rep.viol(rule, "offset pattern", P.where(parse), "expected one offset-detection pattern constant, found %d" % len(pats))
        return
    try:
        rx = re.compile(pats[0])
    except re.error:
        rep.note("offset pattern %r is not analysable with the reference regex engine" % pats[0])
        rep.ok(rule, "offset pattern", P.where(parse), "not analysable: %r" % pats[0])
        return
    miss = []
    for sign in "+-":
        for hh in range(0, 15):
            for mm in (0, 15, 30, 45):
                if sign == "-" and hh > 12:
                    continue
                s_ = "2020-01-01 10:00:00 %s%02d%02d" % (sign, hh, mm)
                if not rx.search(s_):
                    miss.append("%s%02d%02d" % (sign, hh, mm))
    false_pos = [s_ for s_ in ("2020-01-01 10:00:00", "2020-01-01", "1 January 2020 10:00:00") if rx.search(s_)]
    if miss or false_pos:
        rep.viol(rule, "offset pattern", P.where(parse),
                 "the constant pattern %r that detects a trailing UTC offset misses %s%s: such date-times do not parse back"
                 % (pats[0], miss[:8], (" and matches offset-less %s" % false_pos) if false_pos else ""))
    else:
        rep.ok(rule, "offset pattern", P.where(parse), "%r recognises every +-HHMM offset from -1200 to +1445 and no offset-less form" % pats[0])


def run_date_cmp(P, rep, rule="R-TABLE.datecmp"):
    """DateTime/Date compare through the wrapped time types (instant-based), via derive."""
    for aid, inner in (("liquid_core::model::scalar::datetime::DateTime", "time::offset_date_time::OffsetDateTime"),
                       ("liquid_core::model::scalar::date::Date", "time::date::Date")):
        adt = P.adts.get(aid)
        if adt is None:
            rep.anchor_missing(rule, aid)
            continue
        fields = adt["variants"][0]["fields"]
        ftys = [P.tstr(adt["crate"], f["ty"]) for f in fields]
        impls = [im for im in P.impls if im["crate"] == "liquid_core" and im.get("trait") in ("core::cmp::PartialEq", "core::cmp::PartialOrd")
                 and P.impl_self_str(im) == aid]
        derived = [im for im in impls if im["expn"]]
        hand = [im for im in impls if not im["expn"]]
        if ftys == [inner] and len(derived) >= 2 and not hand:
            rep.ok(rule, aid.rsplit("::", 1)[1], "-", "single field %s with derived PartialEq/PartialOrd: comparisons are the wrapped type's (chronological)" % inner)
        else:
            rep.viol(rule, aid.rsplit("::", 1)[1], "-", "fields %s, derived cmp impls %d, hand-written %d: comparison is no longer simply the wrapped instant's"
                     % (ftys, len(derived), len(hand)))


# ---------------------------------------------------------------------------------------
# which library operation implements which filter (C13, C14, C15)

SF = "liquid_lib::stdlib::filters::"
FILTER_OPS = {
    # filter struct -> (needs any of, forbids) over a vocabulary of direction/identity-bearing std methods
    SF + "string::case::UpcaseFilter": ({"to_uppercase"}, {"to_lowercase", "to_ascii_lowercase"}),
    SF + "string::case::DowncaseFilter": ({"to_lowercase"}, {"to_uppercase", "to_ascii_uppercase"}),
    SF + "string::case::CapitalizeFilter": ({"to_uppercase"}, {"to_lowercase", "rev", "last"}),
    SF + "string::strip::StripFilter": ({"trim"}, {"trim_start", "trim_end", "trim_matches", "trim_start_matches", "trim_end_matches"}),
    SF + "string::strip::LstripFilter": ({"trim_start"}, {"trim", "trim_end", "trim_matches", "trim_end_matches"}),
    SF + "string::strip::RstripFilter": ({"trim_end"}, {"trim", "trim_start", "trim_matches", "trim_start_matches"}),
    SF + "math::CeilFilter": ({"ceil"}, {"floor", "round", "trunc", "format", "parse", "to_string"}),
    SF + "math::FloorFilter": ({"floor"}, {"ceil", "round", "trunc", "format", "parse", "to_string"}),
    SF + "math::RoundFilter": ({"round"}, {"ceil", "floor", "trunc", "format", "parse", "to_string"}),
    SF + "math::AtLeastFilter": ({"max"}, {"min"}),
    SF + "math::AtMostFilter": ({"min"}, {"max"}),
    SF + "array::ReverseFilter": ({"reverse", "rev"}, {"sort_by", "sort"}),
    SF + "array::FirstFilter": ({"first", "next", "nth", "chars", "get"}, {"last", "next_back", "rev", "nth_back"}),
    SF + "array::LastFilter": ({"last", "next_back", "rev"}, {"first"}),
    SF + "array::ConcatFilter": ({"chain", "extend", "append"}, {"rev", "dedup", "retain"}),
    SF + "array::CompactFilter": ({"filter", "retain", "filter_map"}, {"rev", "dedup"}),
    SF + "array::JoinFilter": ({"join"}, {"rev"}),
    SF + "array::WhereFilter": ({"all"}, {"any"}),  # the "array of objects" validation quantifies over every element
    SF + "string::truncate::TruncateWordsFilter": ({"split"}, {"split_whitespace", "rsplit", "rev", "unicode_words", "split_ascii_whitespace", "lines"}),
    SF + "string::strip::StripNewlinesFilter": ({"filter", "replace", "retain", "split"},
                                                {"is_control", "is_whitespace", "is_ascii_control", "is_ascii_whitespace", "trim", "lines", "is_alphanumeric"}),
    SF + "string::SplitFilter": ({"split"}, {"rsplit", "rev", "split_whitespace"}),
    SF + "string::operate::ReplaceFilter": ({"replace"}, {"replacen", "splitn"}),
    SF + "string::operate::RemoveFilter": ({"replace"}, {"replacen", "splitn"}),
    SF + "string::operate::ReplaceFirstFilter": ({"splitn", "replacen"}, {"rsplitn", "replace"}),
    SF + "string::operate::RemoveFirstFilter": ({"splitn", "replacen"}, {"rsplitn", "replace"}),
    SF + "html::NewlineToBrFilter": ({"replace"}, {"replacen"}),
    SF + "slice::SliceFilter": ({"chars"}, {"graphemes", "grapheme_indices", "bytes", "unicode_words", "char_indices"}),
    SF + "SizeFilter": ({"chars"}, {"graphemes", "grapheme_indices", "bytes", "unicode_words"}),
}
OPS_VOC = set("to_uppercase to_lowercase to_ascii_uppercase to_ascii_lowercase trim trim_start trim_end trim_matches trim_start_matches "
              "trim_end_matches rev reverse ceil floor round trunc max min first last next next_back nth nth_back chars get chain extend append "
              "dedup retain filter filter_map join split rsplit split_whitespace replace replacen splitn rsplitn sort_by sort "
              "graphemes grapheme_indices bytes unicode_words char_indices format parse to_string all any split_ascii_whitespace lines is_control is_whitespace is_ascii_control is_ascii_whitespace is_alphanumeric".split())


def run_filter_ops(P, rep, only=None, rule="R-TABLE.filterops"):
    from origins import SelfOrigins
    for st, (need, forbid) in sorted(FILTER_OPS.items()):
        if only and not any(st.startswith(SF + o) for o in only):
            continue
        key = "<%s as liquid_core::parser::filter::Filter>::evaluate" % st
        fns = P.by_key(key)
        if len(fns) != 1:
            rep.anchor_missing(rule, key)
            continue
        fn = fns[0]
        names = set()
        for body, _ in SelfOrigins(P, fn, seed={}).all_bodies():
            for bi, t in P.calls(body):
                f = t.get("f")
                if f and not f["krate"].startswith("liquid"):
                    l = f["id"].rsplit("::", 1)[1]
                    if l in OPS_VOC:
                        names.add(l)
            # a std function handed over by name (`.flat_map(char::to_lowercase)`, `.map(str::trim)`) is used just as much as one called
            from mirutil import all_operands
            for op in all_operands(body):
                if op[0] == "k" and isinstance(op[1], dict) and "fn" in op[1] and not op[1]["fn"].get("krate", "liquid").startswith("liquid"):
                    l = op[1]["fn"]["id"].rsplit("::", 1)[1]
                    if l in OPS_VOC:
                        names.add(l)
        site = st.rsplit("::", 1)[1].replace("Filter", "").lower()
        if not (names & need):
            rep.viol(rule, site, P.where(fn), "filter `%s` no longer uses any of %s (uses %s)" % (site, sorted(need), sorted(names)))
        elif names & forbid:
            rep.viol(rule, site, P.where(fn), "filter `%s` uses %s, the operation of its opposite/sibling filter" % (site, sorted(names & forbid)))
        else:
            rep.ok(rule, site, P.where(fn), "implemented with %s" % sorted(names & need))
    # append / prepend: which side receives the other
    for st, recv_is_input in ((SF + "string::operate::AppendFilter", True), (SF + "string::operate::PrependFilter", False)):
        if only and not any(st.startswith(SF + o) for o in only):
            continue
        key = "<%s as liquid_core::parser::filter::Filter>::evaluate" % st
        fns = P.by_key(key)
        if len(fns) != 1:
            rep.anchor_missing(rule, key)
            continue
        fn = fns[0]
        ps = [t for bi, t in P.calls(fn) if t.get("f") and t["f"]["id"].rsplit("::", 1)[1] == "push_str"]
        site = st.rsplit("::", 1)[1].replace("Filter", "").lower()
        if len(ps) != 1:
            rep.viol(rule, site, P.where(fn), "expected one push_str, found %d" % len(ps))
            continue
        ol = op_local(ps[0]["args"][0])
        locs, calls = backward_slice(fn, ol[0]) if ol else (set(), [])
        from_input = 2 in locs
        if from_input != recv_is_input:
            rep.viol(rule, site, P.where(fn), "`%s` puts the text on the wrong side of the input" % site)
        else:
            rep.ok(rule, site, P.where(fn), "receiver of push_str is %s" % ("the input" if recv_is_input else "the argument"))


def states_queried(P, fn):
    """Names of the State variants a body passes to ValueView::query_state."""
    from origins import SelfOrigins
    names = variants_of(P, "liquid_core::model::value::state::State")
    out = set()
    for body, _ in SelfOrigins(P, fn, seed={}).all_bodies():
        for bi, t in P.calls(body):
            f = t.get("f")
            if not f or not f["id"].endswith("ValueView::query_state") or len(t["args"]) < 2:
                continue
            a = t["args"][1]
            if a[0] == "k":
                v = a[1].get("val")
                out.add(names[v] if isinstance(v, int) and v < len(names) else str(v))
                continue
            ol = op_local(a)
            found = False
            for b in body.blocks:
                for st in b["s"]:
                    if st[0] == "a" and ol and st[1][0] == ol[0]:
                        rv = st[2]
                        if rv["k"] == "agg" and rv.get("id", "").endswith("state::State"):
                            out.add(rv["vname"])
                            found = True
                        elif rv["k"] == "use" and rv["o"][0] == "k" and "val" in rv["o"][1]:
                            v = rv["o"][1]["val"]
                            out.add(names[v] if isinstance(v, int) and v < len(names) else str(v))
                            found = True
            if not found:
                out.add("<computed>")
    return out


STATE_SPEC = {
    "<liquid_lib::stdlib::filters::DefaultFilter as liquid_core::parser::filter::Filter>::evaluate": ({"DefaultValue"}, "default replaces nil, false and empty values only"),
    "<liquid_lib::stdlib::blocks::if_block::ExistenceCondition>::evaluate": ({"Truthy"}, "a bare value is tested for truthiness"),
    "<liquid_lib::stdlib::filters::array::WhereFilter as liquid_core::parser::filter::Filter>::evaluate": ({"Truthy"}, "where without a target keeps objects whose property is truthy"),
    "<&mut liquid_core::model::value::ser::ValueDeserializer as serde::de::Deserializer>::deserialize_option": (set(), "an Option is None for nil / the empty-blank markers only: `false` is a present value, so no State query belongs here"),
    "<liquid_lib::stdlib::filters::array::CompactFilter as liquid_core::parser::filter::Filter>::evaluate": (set(), "compact removes nil only: `false`, 0 and \"\" are kept, so no State query belongs here"),
}


def run_state_use(P, rep, only=None, rule="R-TABLE.state"):
    for key, (want, why) in sorted(STATE_SPEC.items()):
        if only and not any(o in key for o in only):
            continue
        fns = P.by_key(key)
        if len(fns) != 1:
            rep.anchor_missing(rule, key)
            continue
        got = states_queried(P, fns[0])
        site = key.split(" as ")[0].lstrip("<").rsplit("::", 1)[-1].replace(">::evaluate", "")
        if got != want:
            rep.viol(rule, site, P.where(fns[0]), "queries state %s; %s (needs %s)" % (sorted(got), why, sorted(want)))
        else:
            rep.ok(rule, site, P.where(fns[0]), ("queries State::%s" % sorted(want)[0]) if want else "queries no State (nil test only)")
    if not only or any("WhereFilter" in o for o in only):
        run_where_target(P, rep)


OPTION_NEUTRAL = ("as_ref", "as_deref", "as_mut", "map", "is_some", "is_none", "clone", "iter", "is_some_and", "is_none_or", "map_or", "map_or_else",
                  "unwrap", "expect", "unwrap_unchecked", "branch", "eq", "ne", "drop", "into_iter", "fmt", "cloned", "copied", "deref")


def run_where_target(P, rep, rule="R-TABLE.state"):
    """WhereFilter::evaluate: whether the filter runs in its one-argument (truthy) or two-argument (equality) form is decided by
    whether a target argument was *given*.  The evaluated `Option<ValueCow>` target therefore reaches the match untouched: an
    Option adapter that can turn Some into None or None into Some (filter, and_then, take, or, or_else, xor, zip, replace ..)
    switches the form on the argument's value — `where: "p", nil` then silently becomes `where: "p"`."""
    key = "<liquid_lib::stdlib::filters::array::WhereFilter as liquid_core::parser::filter::Filter>::evaluate"
    fns = P.by_key(key)
    if len(fns) != 1:
        rep.anchor_missing(rule, key)
        return
    fn = fns[0]
    n = 0
    for bi, t in P.calls(fn):
        f = t.get("f")
        if not f or not t["args"]:
            continue
        ol = op_local(t["args"][0])
        ty = P.local_ty(fn, ol[0]).lstrip("&").replace("mut ", "") if ol and not ol[1] else ""
        if not (ty.startswith("core::option::Option<liquid_core::model::value::cow::ValueCow") and "option::Option" in f["name"]):
            continue
        n += 1
        last = f["id"].rsplit("::", 1)[1]
        if last not in OPTION_NEUTRAL:
            rep.viol(rule, "where target `%s`" % last, P.where(fn, t["line"]),
                     "the optional target argument of `where` is passed through Option::%s before the one-/two-argument form is chosen: "
                     "a given argument can be treated as absent (or an absent one as given) depending on its value" % last)
            return
    rep.ok(rule, "where target", P.where(fn), "the evaluated target Option reaches the form selection untouched (%d neutral adapter calls)" % n)


# ---------------------------------------------------------------------------------------
# R-FMT.numeric: zero-filled numbers are right-aligned

def run_fmt_numeric(P, rep, rule="R-FMT.numeric"):
    """Every format_args! placeholder in strftime.rs that fills with '0' is right-aligned (or uses the `0` flag, which is
    right-aligned by definition): a left-aligned zero fill turns 5 into "500". Read off the expanded AST, where fill and
    alignment are explicit (the MIR form of a format template is an opaque byte string)."""
    sites = [x for x in P.fmts if x["file"].endswith("scalar/datetime/strftime.rs")]
    if not sites:
        rep.anchor_missing(rule, "format_args! sites in strftime.rs")
        return
    n = 0
    per_line = {}
    for x in sorted(sites, key=lambda y: (y["line"], y["tpl_line"])):
        for k, pc in enumerate(x["pieces"]):
            if "lit" in pc:
                continue
            if pc.get("fill") != "0" and not pc.get("zero_pad"):
                continue
            n += 1
            o = per_line.get("zero-fill", 0)
            per_line["zero-fill"] = o + 1
            site = "strftime zero-fill#%d" % o
            where = "%s:%s" % (x["file"], x["line"])
            if pc.get("fill") == "0" and pc.get("align") == "Left":
                rep.viol(rule, site + " left-aligned", where,
                         "a number is padded with '0' on the RIGHT (`{:0<..}`): 5 prints as `500` — fractional-second and numeric fields lose their leading zeros")
            elif pc.get("fill") == "0" and pc.get("align") == "Center":
                rep.viol(rule, site + " centred", where, "a number is zero-filled on both sides")
            else:
                rep.ok(rule, site, where, "zero fill on the left (%s)" % ("`0` flag" if pc.get("zero_pad") else "fill '0', align Right"))
    rep.analysed[rule + ".zero_filled_placeholders"] = n
    rep.analysed[rule + ".format_sites"] = len(sites)


# ---------------------------------------------------------------------------------------
# R-SIGN: a negative numeric field prints its minus sign on every padding path

def run_sign(P, rep, rule="R-SIGN"):
    """strftime prints numeric fields as `value.abs()`; on every path from the binding of `value` to that print either
    `value < 0` is known to be false or '-' has been pushed — whatever the padding flag (the `-`, `_`, `0` paths are all
    explored; tests such as `style != Space` / `style == Space` are correlated so infeasible mixes are not reported)."""
    import predpath
    fn = P.fn_by_key("liquid_core::model::scalar::datetime::strftime::strftime")

    def use_pred(t):
        f = t["f"]
        if f["id"].rsplit("::", 1)[1] in ("abs", "unsigned_abs", "wrapping_abs") and "i64" in f["name"] and t["args"]:
            return t["args"][0]
        return None

    def action_pred(t):
        f = t["f"]
        return f["name"].endswith("String::push") and len(t["args"]) > 1 and t["args"][1][0] == "k" and isinstance(t["args"][1][1], dict) \
            and t["args"][1][1].get("val") == 45
    bad, uses = predpath.sign_discipline(P, fn, use_pred, action_pred)
    if not uses:
        rep.viol(rule, "strftime numeric print", P.where(fn), "no `value.abs()` print found: the numeric emission changed shape (not decided)")
        return
    for k, (ub, V) in enumerate(sorted(uses.items())):
        site = "strftime abs#%d" % k
        mine = [m for b_, m in bad if b_ == ub]
        where = P.where(fn, fn.blocks[ub]["t"].get("line"))
        if mine:
            rep.viol(rule, site, where, "a negative numeric value can be printed without its '-': " + mine[0])
        else:
            rep.ok(rule, site, where, "on every path to the print, value >= 0 is known or '-' was pushed (padding-flag tests correlated)")


# ---------------------------------------------------------------------------------------
# R-MISSINGPROP: what compact/where decide for an object that lacks the property

def _contains_call(P, fn, pred, depth=3, seen=None):
    seen = seen if seen is not None else set()
    if fn.id in seen or depth < 0:
        return False
    seen.add(fn.id)
    for bi, t in P.calls(fn):
        if t.get("f") and pred(t["f"]):
            return True
    for b in fn.blocks:
        for st in b["s"]:
            if st[0] == "a" and st[2]["k"] == "agg" and st[2].get("ak") == "closure" and st[2]["id"] in P.fns:
                if _contains_call(P, P.fns[st[2]["id"]], pred, depth - 1, seen):
                    return True
    return False


def none_value(P, fn, is_source):
    """Abstract value of fn's return when the Option produced by the source call is None.
    is_source(P, fn, t) -> True for the call terminator whose destination is that Option.
    Returns True / False (the returned bool) or None when not decided."""
    from kreach import kreach
    vals = {}
    closures = {}
    for b in fn.blocks:
        for st in b["s"]:
            if st[0] == "a" and not st[1][1] and st[2]["k"] == "agg" and st[2].get("ak") == "closure":
                closures[st[1][0]] = st[2]["id"]
    seeds = []
    for bi, t in P.calls(fn):
        if t.get("f") and is_source(P, fn, t, closures) and not t["d"][1]:
            vals[t["d"][0]] = ("none",)
            seeds.append((bi, t))
    if not seeds:
        return None

    def val_of(op):
        ol = op_local(op)
        if ol and not ol[1]:
            return vals.get(ol[0])
        if op[0] == "k" and isinstance(op[1], dict) and op[1].get("val") in (0, 1):
            return ("bool", bool(op[1]["val"]))
        return None
    changed = True
    rounds = 0
    while changed and rounds < 20:
        changed = False
        rounds += 1
        for b in fn.blocks:
            for st in b["s"]:
                if st[0] != "a" or st[1][1]:
                    continue
                d, rv = st[1][0], st[2]
                new = None
                if rv["k"] == "use":
                    new = val_of(rv["o"])
                elif rv["k"] == "un" and rv.get("op") == "Not":
                    v = val_of(rv["a"])
                    if v and v[0] == "bool":
                        new = ("bool", not v[1])
                if new is not None and vals.get(d) != new:
                    vals[d] = new
                    changed = True
            t = b["t"]
            if t["k"] == "call" and t.get("f") and t["args"] and not t["d"][1]:
                v0 = val_of(t["args"][0])
                if not v0 or v0[0] != "none":
                    continue
                last = t["f"]["id"].rsplit("::", 1)[1]
                new = None
                if last in ("map", "and_then", "filter", "copied", "cloned", "as_ref", "as_deref", "inspect", "take", "or_else_none"):
                    new = ("none",)
                elif last in ("unwrap_or", "map_or") and len(t["args"]) > 1:
                    new = val_of(t["args"][1])
                    if new is not None and new[0] != "bool":
                        new = None
                elif last in ("is_some_and", "is_some", "unwrap_or_default"):
                    new = ("bool", False)
                elif last in ("is_none_or", "is_none"):
                    new = ("bool", True)
                if new is not None and vals.get(t["d"][0]) != new:
                    vals[t["d"][0]] = new
                    changed = True
    # blocks reachable when the seed(s) are None (a direct `match`/`if let` on the Option follows its None edge)
    reach = set()
    for bi, t in seeds:
        if t.get("t") is not None:
            facts = {l: ("variant", 0) for l, v in vals.items() if v == ("none",)}
            reach |= kreach(P, fn, [t["t"]], facts=facts)
    outs = set()
    for bi in reach | {s[0] for s in seeds}:
        b = fn.blocks[bi]
        for st in b["s"]:
            if st[0] == "a" and st[1][0] == 0 and not st[1][1]:
                v = None
                if st[2]["k"] == "use":
                    v = val_of(st[2]["o"])
                elif st[2]["k"] == "un" and st[2].get("op") == "Not":
                    v0 = val_of(st[2]["a"])
                    v = ("bool", not v0[1]) if v0 and v0[0] == "bool" else None
                outs.add(v[1] if v and v[0] == "bool" else None)
        t = b["t"]
        if t["k"] == "call" and t["d"][0] == 0 and not t["d"][1]:
            v = vals.get(0)
            outs.add(v[1] if v and v[0] == "bool" else None)
    if len(outs) == 1:
        return list(outs)[0]
    return None


def run_missing_key_eq(P, rep, rule="R-MISSINGKEY"):
    """value_eq on two objects: the per-entry predicate is false when the other object has no such key (abstractly evaluated
    like R-MISSINGPROP) — two objects with different key sets are never equal."""
    OBJ_GET = lambda f: f.get("trait", "").endswith("ObjectView") and f["id"].endswith("::get")  # noqa: E731

    def is_source(P_, fn, t, closures):
        return OBJ_GET(t["f"])
    root = P.fn_by_key("liquid_core::model::value::view::value_eq")
    preds = []
    todo = [root]
    seen = set()
    while todo:
        f = todo.pop()
        if f.id in seen:
            continue
        seen.add(f.id)
        for b in f.blocks:
            for st in b["s"]:
                if st[0] == "a" and st[2]["k"] == "agg" and st[2].get("ak") == "closure" and st[2]["id"] in P.fns:
                    c = P.fns[st[2]["id"]]
                    todo.append(c)
                    if P.local_ty(c, 0) == "bool" and any(t.get("f") and OBJ_GET(t["f"]) for bi, t in P.calls(c)):
                        preds.append(c)
    if not preds:
        # no closure: the lookup may be inline in value_eq itself
        if any(t.get("f") and OBJ_GET(t["f"]) for bi, t in P.calls(root)):
            preds = []
            rep.ok(rule, "value_eq object entries", P.where(root), "key lookup is inline (not decided by this rule)")
            return
        rep.viol(rule, "value_eq object entries", P.where(root), "no per-entry key lookup found in value_eq's object branch")
        return
    for k, c in enumerate(preds):
        v = none_value(P, c, is_source)
        site = "value_eq entry predicate#%d" % k
        if v is False:
            rep.ok(rule, site, P.where(c), "an entry whose key the other object lacks makes the objects unequal")
        elif v is True:
            rep.viol(rule, site, P.where(c), "a key missing from the other object counts as a MATCH: objects with different key sets compare equal")
        else:
            rep.viol(rule, site + " undecided", P.where(c), "could not evaluate the entry predicate for a missing key (unrecognised Option idiom): not decided")


def run_missing_property(P, rep, rule="R-MISSINGPROP"):
    """`compact: "p"` and `where: "p"[, v]`: the predicate that selects objects evaluates to false for an object that has no
    member p (abstractly evaluated: the Option from ObjectView::get is None and flows through map / and_then / unwrap_or(c) /
    map_or(c, _) / is_some_and / `!` or a direct match)."""
    OBJ_GET = lambda f: f.get("trait", "").endswith("ObjectView") and f["id"].endswith("::get")  # noqa: E731

    def is_source(P_, fn, t, closures):
        f = t["f"]
        if OBJ_GET(f):
            return True
        if f["id"].rsplit("::", 1)[1] == "and_then":
            for a in t["args"][1:]:
                ol = op_local(a)
                if ol and ol[0] in closures and closures[ol[0]] in P_.fns and _contains_call(P_, P_.fns[closures[ol[0]]], OBJ_GET):
                    return True
        return False
    for ty in ("CompactFilter", "WhereFilter"):
        root = P.fn_by_key("<liquid_lib::stdlib::filters::array::%s as liquid_core::parser::filter::Filter>::evaluate" % ty)
        preds = []
        for b in root.blocks:
            for st in b["s"]:
                if st[0] == "a" and st[2]["k"] == "agg" and st[2].get("ak") == "closure" and st[2]["id"] in P.fns:
                    c = P.fns[st[2]["id"]]
                    ret = P.local_ty(c, 0)
                    if ret == "bool" and _contains_call(P, c, OBJ_GET):
                        preds.append(c)
        site0 = ty.replace("Filter", "").lower()
        if not preds:
            rep.viol(rule, site0 + " shape", P.where(root), "no boolean predicate closure that looks the property up was found: not decided")
            continue
        for k, c in enumerate(preds):
            v = none_value(P, c, is_source)
            site = "%s predicate#%d" % (site0, k)
            if v is False:
                rep.ok(rule, site, P.where(c), "an object without the property is not selected (predicate evaluates to false when get() is None)")
            elif v is True:
                rep.viol(rule, site, P.where(c), "an object that lacks the property is KEPT by `%s` (the predicate is true when get() is None)" % site0)
            else:
                rep.viol(rule, site + " undecided", P.where(c), "could not evaluate the predicate for a missing property (unrecognised Option idiom): not decided")


# ---------------------------------------------------------------------------------------
# R-TABLE.parseformats: the accepted date syntaxes are the reviewed ones, component by component

def date_format_signatures(P):
    """file -> sorted list of signatures; a signature is the ordered list of time::format_description components and
    modifiers (variant names, small integer/bool fields) a `format_description!` constant is built from."""
    out = {}
    for fn in sorted(P.fns.values(), key=lambda f: f.id):
        if fn.kind != "const" or fn.crate != "liquid_core" or "/model/scalar/" not in fn.file or not fn.id.rsplit("::", 1)[1].startswith("DESCRIPTION"):
            continue
        sig = []
        for b in fn.blocks:
            t = b["t"]
            for st in b["s"]:
                if st[0] != "a":
                    continue
                rv = st[2]
                if rv["k"] == "agg" and rv.get("ak") == "adt" and rv["id"].startswith("time::format_description::"):
                    short = rv["id"].rsplit("::", 1)[1]
                    if short == "BorrowedFormatItem":
                        sig.append("|" + rv.get("vname", "?"))
                    else:
                        sig.append("%s.%s" % (short, rv.get("vname")))
                elif rv["k"] == "use" and st[1][1] and rv["o"][0] == "k" and isinstance(rv["o"][1], dict) and "val" in rv["o"][1]:
                    sig.append("f%d=%s" % (st[1][1][0][1], rv["o"][1]["val"]))
            if t["k"] == "call" and t.get("f") and t["f"]["name"].startswith("time::format_description::modifier::"):
                sig.append("<" + t["f"]["name"].split("modifier::", 1)[1].split("::")[0] + ">")
        out.setdefault(fn.file, []).append(" ".join(sig))
    return {k: sorted(v) for k, v in out.items()}


def run_parse_formats(P, rep, rule="R-TABLE.parseformats"):
    import core as _core
    want = _core.load_json("ledger/date_formats.json", None)
    have = date_format_signatures(P)
    if want is None:
        rep.anchor_missing(rule, "ledger/date_formats.json")
        return
    if not have:
        rep.anchor_missing(rule, "format_description! constants in model/scalar")
        return
    for f in sorted(set(want) | set(have)):
        w, h = list(want.get(f, [])), list(have.get(f, []))
        missing = []
        extra = list(h)
        for s_ in w:
            if s_ in extra:
                extra.remove(s_)
            else:
                missing.append(s_)
        site = f.rsplit("/", 1)[-1] + " formats"
        if missing or extra:
            def brief(s_):
                return " ".join(x for x in s_.split() if "." in x or x.startswith("<"))[:200]
            rep.viol(rule, site, f, "the set of accepted/printed date syntaxes changed: reviewed but gone: %s; new and unreviewed: %s" % (
                [brief(x) for x in missing][:2], [brief(x) for x in extra][:2]))
        else:
            rep.ok(rule, site, f, "%d format descriptions, each component and modifier as reviewed" % len(h))


# ---------------------------------------------------------------------------------------
# R-CASEFLAG: the `^` / `#` flags reach every textual output class of strftime

def run_case_flag(P, rep, rule="R-CASEFLAG"):
    """In strftime's final `match format`, the arms for alphabetical fields and for composite (pre-formatted) fields each
    apply the case flag (an upper-casing call on the freshly written text)."""
    fn = P.fn_by_key("liquid_core::model::scalar::datetime::strftime::strftime")
    adt = None
    for k, a in P.adts.items():
        if k.endswith("strftime::Formats"):
            adt = a
    if adt is None:
        rep.anchor_missing(rule, "enum Formats")
        return
    names = [v["name"] for v in adt["variants"]]
    sw = discr_switches(P, fn, lambda pl: P.local_ty(fn, pl[0]).endswith("strftime::Formats") and not pl[1])
    if not sw:
        rep.anchor_missing(rule, "match on Formats")
        return
    regs = [arm_region(P, fn, v, sw, start=min(sw)) for v in range(len(names))]
    common = set(regs[0])
    for r in regs[1:]:
        common &= r
    for want in ("Alphabetical", "Formatted"):
        if want not in names:
            rep.anchor_missing(rule, "Formats::" + want)
            continue
        reg = regs[names.index(want)] - common
        ups = [b for b in reg if fn.blocks[b]["t"]["k"] == "call" and fn.blocks[b]["t"].get("f")
               and fn.blocks[b]["t"]["f"]["id"].rsplit("::", 1)[1] in ("make_ascii_uppercase", "to_uppercase", "to_ascii_uppercase")]
        site = "strftime Formats::" + want
        if ups:
            rep.ok(rule, site, P.where(fn, fn.blocks[ups[0]]["t"].get("line")), "the arm upper-cases its output under the case flag")
        else:
            rep.viol(rule, site, P.where(fn), "the %s arm never applies the case flag: `^`/`#` are ignored for this class of directives" % want)


# ---------------------------------------------------------------------------------------
# R-STRKIND: first/last of a string is a string, also when the string is empty

def run_first_last_kind(P, rep, rule="R-STRKIND"):
    """FirstFilter / LastFilter: in the branch selected by `input.as_scalar()` being Some the result is always `Value::scalar(..)`;
    `Value::Nil` is built only in the array branch (an empty string gives "", which the next string filter accepts)."""
    for ty in ("FirstFilter", "LastFilter"):
        fn = P.fn_by_key("<liquid_lib::stdlib::filters::array::%s as liquid_core::parser::filter::Filter>::evaluate" % ty)
        site = ty.replace("Filter", "").lower() + " string branch"
        probes = [(bi, t) for bi, t in P.calls(fn) if t.get("f") and t["f"]["id"].endswith("ValueView::as_scalar")]
        if len(probes) != 1:
            rep.viol(rule, site, P.where(fn), "expected one as_scalar() probe, found %d" % len(probes))
            continue
        bi, t = probes[0]
        d = t["d"][0]
        some = none = None
        cur = t["t"]
        for _ in range(6):
            b = fn.blocks[cur]
            tt = b["t"]
            if tt["k"] == "switch":
                ol = op_local(tt["o"])
                if any(st[0] == "a" and ol and st[1][0] == ol[0] and st[2]["k"] == "discr" and st[2]["p"][0] == d for st in b["s"]):
                    some = [x for v, x in tt["t"] if v == 1] or [tt["else"]]
                    none = [x for v, x in tt["t"] if v == 0] or [tt["else"]]
                break
            cur = tt.get("t") if tt["k"] in ("goto", "drop") else None
            if cur is None:
                break
        if some is None:
            rep.viol(rule, site, P.where(fn), "no branch on the as_scalar() probe")
            continue
        region = P.reach(fn, some) - P.reach(fn, none)
        bodies = [(fn, region)]
        for b2 in region:
            for st in fn.blocks[b2]["s"]:
                if st[0] == "a" and st[2]["k"] == "agg" and st[2].get("ak") == "closure" and st[2]["id"] in P.fns:
                    c = P.fns[st[2]["id"]]
                    bodies.append((c, set(range(len(c.blocks)))))
        nils = []
        scal = 0
        for body, reg in bodies:
            for b2 in reg:
                for st in body.blocks[b2]["s"]:
                    if st[0] == "a" and st[2]["k"] == "agg" and st[2].get("id", "").endswith("values::Value") and st[2].get("vname") != "Scalar":
                        nils.append((body, st[3] if len(st) > 3 else body.line, st[2].get("vname")))
                tt = body.blocks[b2]["t"]
                if tt["k"] == "call" and tt.get("f") and tt["f"]["name"].endswith("Value::scalar"):
                    scal += 1
        if nils:
            body, line, vn = nils[0]
            rep.viol(rule, site, P.where(body, line), "the string branch can produce Value::%s: `first`/`last` of an empty string is no longer a string" % vn)
        elif not scal:
            rep.viol(rule, site, P.where(fn), "the string branch does not build its result with Value::scalar")
        else:
            rep.ok(rule, site, P.where(fn), "string branch always yields Value::scalar(..)")


# ---------------------------------------------------------------------------------------
# R-ONCELOOKUP: escape_once looks for an existing entity after EVERY `&`

def run_once_lookup(P, rep, rule="R-ONCELOOKUP"):
    """In html::escape the call of nr_escaped (is this `&` already the start of an entity?) is control-dependent only on the
    character being `&`, on the once-mode flag and on the skip counter being zero: no length / position test decides whether
    the lookup happens (a bound such as `remaining > 3` silently excludes an entity at the very end of the input)."""
    fn = P.fn_by_key("liquid_lib::stdlib::filters::html::escape")
    calls = [(bi, t) for bi, t in P.calls(fn) if t.get("f") and t["f"]["id"].endswith("html::nr_escaped")]
    site = "escape nr_escaped lookup"
    if len(calls) != 1:
        rep.viol(rule, site, P.where(fn), "expected one nr_escaped call in escape, found %d" % len(calls))
        return
    bi, t = calls[0]
    bad = []
    for di, b in enumerate(fn.blocks):
        tt = b["t"]
        if tt["k"] != "switch" or di == bi or not P.dominates(fn, di, bi):
            continue
        ol = op_local(tt["o"])
        if not ol:
            continue
        for st in b["s"]:
            if st[0] == "a" and st[1][0] == ol[0] and st[2]["k"] == "bin" and st[2]["op"] in ("Lt", "Le", "Gt", "Ge", "Eq", "Ne"):
                a, c = st[2]["a"], st[2]["b"]
                zero = lambda o: o[0] == "k" and isinstance(o[1], dict) and o[1].get("val") == 0  # noqa: E731
                la = op_local(a)
                ty = P.local_ty(fn, la[0]) if la else ""
                if ty in ("usize", "isize", "u64", "i64", "u32", "i32") and not (zero(a) or zero(c)):
                    bad.append(st[3] if len(st) > 3 else fn.line)
    if bad:
        rep.viol(rule, site, P.where(fn, bad[0]),
                 "whether escape_once looks for an existing entity after `&` depends on a length/position comparison (line %d): an entity near the end of the "
                 "input is not recognised and gets escaped again" % bad[0])
    else:
        rep.ok(rule, site, P.where(fn, t["line"]), "the lookup depends only on the character, the once flag and the skip counter")


# ---------------------------------------------------------------------------------------
# R-WIDTHCLASS / R-SUBSECSEL (C17)

def run_width_class(P, rep, rule="R-WIDTHCLASS"):
    """strftime: the characters collected as a pad width are handed to `usize::from_str`, which accepts ASCII digits only.  The
    class that decides "this is (still) a width" must therefore be `char::is_ascii_digit`; a wider Unicode class (is_numeric,
    is_alphanumeric, is_digit(radix)) sends '²', '٣', '５' … into from_str and turns an unknown directive into InvalidWidth."""
    key = "liquid_core::model::scalar::datetime::strftime::strftime"
    fns = P.by_key(key)
    if len(fns) != 1:
        rep.anchor_missing(rule, key)
        return
    fn = fns[0]
    bodies = [fn] + [g for g in P.fns.values() if g.kind == "closure" and g.id.startswith(fn.id + "::{closure")]
    ok_n, bad = 0, []
    for g in bodies:
        for bi, t in P.calls(g):
            f = t.get("f")
            if not f or "char" not in f["name"]:
                continue
            last = f["id"].rsplit("::", 1)[1]
            if last == "is_ascii_digit":
                ok_n += 1
            elif last in ("is_numeric", "is_alphanumeric", "is_digit", "is_ascii_hexdigit", "is_ascii_alphanumeric", "to_digit"):
                bad.append((last, t["line"]))
    parses = [t for g in bodies for bi, t in P.calls(g) if t.get("f") and t["f"]["id"].rsplit("::", 1)[1] in ("from_str", "parse")]
    rep.count(rule + ".digit_tests", ok_n)
    if bad:
        rep.viol(rule, "strftime width class", P.where(fn, bad[0][1]),
                 "the width of a directive is recognised with `char::%s`, a wider class than the ASCII digits `usize::from_str` accepts: "
                 "a non-ASCII numeral after `%%` now fails the whole format with InvalidWidth instead of being echoed" % bad[0][0])
    elif not ok_n or not parses:
        rep.viol(rule, "strftime width class", P.where(fn), "no is_ascii_digit test / no from_str in strftime: the width recogniser changed shape; re-derive")
    else:
        rep.ok(rule, "strftime width class", P.where(fn), "%d is_ascii_digit tests feed the one usize::from_str" % ok_n)


def run_subsec_selector(P, rep, rule="R-SUBSECSEL"):
    """Display and the serde serializer of DateTime pick DATE_TIME_FORMAT or DATE_TIME_FORMAT_SUBSEC.  The selector must be the
    full-resolution `nanosecond()`: with `millisecond()` / `microsecond()` a fraction below that unit is dropped from the text,
    and the value that is parsed back is a different instant."""
    from mirutil import all_operands
    D = "liquid_core::model::scalar::datetime::"

    def refs(fn, name):
        return any(op[0] == "k" and isinstance(op[1], dict) and str(op[1].get("uneval", "")).endswith(name) for op in all_operands(fn))

    selectors = {}
    for fn in sorted(P.fns.values(), key=lambda f: f.id):
        if fn.crate != "liquid_core" or "scalar::datetime" not in fn.id or "::test" in fn.id:
            continue
        if not refs(fn, "DATE_TIME_FORMAT_SUBSEC") or not refs(fn, "DATE_TIME_FORMAT"):
            continue
        names = [t["f"]["id"].rsplit("::", 1)[1] for bi, t in P.calls(fn) if t.get("f")]
        if not any(x in names for x in ("nanosecond", "millisecond", "microsecond")):
            continue        # parse side: tries both formats
        selectors[fn.id] = fn
        coarse = [x for x in names if x in ("millisecond", "microsecond")]
        if coarse or "nanosecond" not in names:
            rep.viol(rule, fn.key, P.where(fn), "the sub-second format is selected by `%s()`: a fraction smaller than that unit is silently dropped from the text"
                     % (coarse[0] if coarse else "?"))
        else:
            rep.ok(rule, fn.key, P.where(fn), "format selected by nanosecond() == 0")
    rep.count(rule + ".selectors", len(selectors))
    # the two writers of the canonical text each select the format themselves or through a private selector of this file
    users = [P.fn_by_key("<%sDateTime as core::fmt::Display>::fmt" % D)] + [f for f in P.fns.values() if f.id.startswith(D + "friendly_date_time::serialize") and f.kind != "closure"]
    for u in users:
        if u is None:
            continue
        if u.id in selectors or any(t.get("f") and t["f"]["id"] in selectors for bi, t in P.calls(u)):
            continue
        rep.viol(rule, "selector of " + u.key, P.where(u), "this writer of the canonical date-time text no longer selects between the plain and the sub-second format "
                 "(directly or through a private selector): re-derive")
    if not selectors:
        rep.viol(rule, "selectors", "-", "no function selects between DATE_TIME_FORMAT and DATE_TIME_FORMAT_SUBSEC by a sub-second accessor: re-derive")
