"""Obtain and load the resolved-program facts of /repo's current working tree.

Facts are produced by the `lrfacts` rustc driver (driver/) run under
`cargo +nightly check` on /repo, one JSON file per workspace crate.  They are cached
under .cache/facts/<h>/<config> where h hashes every source/manifest file of the
tree and the driver binary, so an edited tree always gets fresh facts.
"""
import fcntl
import hashlib
import json
import os
import shutil
import subprocess
import sys
import time

VERIF = os.path.dirname(os.path.dirname(os.path.abspath(__file__)))
REPO = os.environ.get("LR_REPO", "/repo")
CACHE = os.environ.get("LR_CACHE") or os.path.join(VERIF, ".cache")
DRIVER = os.environ.get("LR_DRIVER") or os.path.join(VERIF, "driver", "target", "release", "lrfacts")

WORKSPACE_CRATES = ["liquid", "liquid_core", "liquid_lib", "liquid_derive", "liquid_help_md", "liquid_bin"]
LIB_CRATES = ["liquid", "liquid_core", "liquid_lib"]

CONFIGS = {
    # name -> cargo args
    "all": ["--workspace", "--all-features"],
    "nodefault": ["-p", "liquid", "--no-default-features"],
    "lib-stdlib": ["-p", "liquid-lib"],
    "lib-jekyll": ["-p", "liquid-lib", "--no-default-features", "--features", "jekyll"],
    "lib-shopify": ["-p", "liquid-lib", "--no-default-features", "--features", "shopify"],
    "lib-extra": ["-p", "liquid-lib", "--no-default-features", "--features", "extra"],
    "release": ["--workspace", "--all-features", "--release"],
}
EXPECT_CRATES = {
    "all": ["liquid", "liquid_core", "liquid_lib", "liquid_derive", "liquid_help_md", "liquid_bin"],
    "nodefault": ["liquid", "liquid_core"],
    "lib-stdlib": ["liquid_core", "liquid_lib"],
    "lib-jekyll": ["liquid_core", "liquid_lib"],
    "lib-shopify": ["liquid_core", "liquid_lib"],
    "lib-extra": ["liquid_core", "liquid_lib"],
    "release": ["liquid", "liquid_core", "liquid_lib"],
}


class FactsError(Exception):
    pass


def tree_hash(repo=None):
    repo = repo or REPO
    h = hashlib.sha256()
    files = []
    for root, dirs, fs in os.walk(repo):
        dirs[:] = sorted(d for d in dirs if d not in ("target", ".git"))
        for f in sorted(fs):
            if f.endswith((".rs", ".pest", ".toml", ".lock", ".md", ".liquid", ".txt")):
                files.append(os.path.join(root, f))
    for p in files:
        h.update(os.path.relpath(p, repo).encode())
        h.update(b"\0")
        with open(p, "rb") as fh:
            h.update(fh.read())
        h.update(b"\0")
    with open(DRIVER, "rb") as fh:
        h.update(hashlib.sha256(fh.read()).digest())
    return h.hexdigest()[:24]


def _sysroot():
    return subprocess.check_output(["rustc", "+nightly", "--print", "sysroot"], text=True).strip()


def produce(config, repo=None, log=None):
    """Run cargo check with the driver; returns directory with fact files."""
    repo = repo or REPO
    if not os.path.exists(DRIVER):
        raise FactsError("driver not built: run setup (cargo +nightly build --release in driver/)")
    os.makedirs(CACHE, exist_ok=True)
    th = tree_hash(repo)
    out = os.path.join(CACHE, "facts", th, config)
    done = os.path.join(out, "DONE")
    if os.path.exists(done):
        return out
    lockp = os.path.join(CACHE, "facts-%s%s.lock" % (config, os.environ.get("LR_TARGET_SLOT", "")))
    with open(lockp, "w") as lk:
        fcntl.flock(lk, fcntl.LOCK_EX)
        if os.path.exists(done):
            return out
        if os.path.isdir(out):
            shutil.rmtree(out)
        os.makedirs(out)
        tdir = os.path.join(CACHE, "target-" + config + os.environ.get("LR_TARGET_SLOT", ""))
        os.makedirs(tdir, exist_ok=True)
        # cargo's freshness cache would skip the wrapper: drop the members' fingerprints
        for prof in ("debug", "release"):
            fp = os.path.join(tdir, prof, ".fingerprint")
            if os.path.isdir(fp):
                for d in os.listdir(fp):
                    if d.startswith("liquid"):
                        shutil.rmtree(os.path.join(fp, d), ignore_errors=True)
        env = dict(os.environ)
        env.update(
            {
                "LRFACTS_OUT": out,
                "LD_LIBRARY_PATH": _sysroot() + "/lib",
                "RUSTFLAGS": "-Zmir-opt-level=0 -Awarnings",
                "RUSTC_WORKSPACE_WRAPPER": DRIVER,
                "CARGO_TARGET_DIR": tdir,
                "CARGO_NET_OFFLINE": "true",
            }
        )
        env.pop("RUSTC_WRAPPER", None)
        cmd = ["cargo", "+nightly", "check", "--offline"] + CONFIGS[config]
        t0 = time.time()
        p = subprocess.run(cmd, cwd=repo, env=env, stdout=subprocess.PIPE, stderr=subprocess.STDOUT, text=True)
        with open(os.path.join(out, "cargo.log"), "w") as fh:
            fh.write(p.stdout)
        if p.returncode != 0:
            tail = "\n".join(p.stdout.splitlines()[-40:])
            shutil.rmtree(out, ignore_errors=True)
            raise FactsError("cargo check failed on %s (config %s):\n%s" % (repo, config, tail))
        have = {f.split("-")[0] for f in os.listdir(out) if f.endswith(".json")}
        missing = [c for c in EXPECT_CRATES[config] if c not in have]
        if missing:
            shutil.rmtree(out, ignore_errors=True)
            raise FactsError("fact files missing for crates %s (config %s)" % (missing, config))
        with open(done, "w") as fh:
            fh.write("%.1f\n" % (time.time() - t0))
        # keep the cache bounded: drop fact sets of other trees that are old (never ones that may be in use)
        base = os.path.join(CACHE, "facts")
        now = time.time()
        ds = sorted((os.path.getmtime(os.path.join(base, d)), d) for d in os.listdir(base))
        for mt, d in ds[:-80]:
            if now - mt > 3 * 3600:
                shutil.rmtree(os.path.join(base, d), ignore_errors=True)
    return out


# ---------------------------------------------------------------------------------------
# loading


class Fn:
    __slots__ = (
        "id", "name", "kind", "crate", "file", "line", "end_line", "expn", "macros", "pub", "impl",
        "item_name", "argc", "locals", "names", "blocks", "raw", "root", "parent", "trait_default_of",
        "_succ", "_pred", "_dom", "key",
    )

    def __repr__(self):
        return "<Fn %s>" % self.key


class Program:
    """All workspace crates of one configuration merged."""

    def __init__(self, config, facts_dir):
        self.config = config
        self.dir = facts_dir
        self.fns = {}
        self.types = {}  # crate -> list of type json
        self._tstr = {}
        self.adts = {}
        self.impls = []
        self.traits = {}
        self.unsafe_blocks = []
        self.fmts = []  # format_args! sites read off the expanded AST: file, line, pieces (literals / placeholders with fill, align, width)
        self._autos_raw = []
        self._autos = None
        self.crates = []
        seen_files = {}
        for f in sorted(os.listdir(facts_dir)):
            if not f.endswith(".json"):
                continue
            cname = f.split("-")[0]
            if cname in seen_files:
                continue  # liquid_derive is built for host and target: identical
            seen_files[cname] = f
            with open(os.path.join(facts_dir, f)) as fh:
                d = json.load(fh)
            self.crates.append(cname)
            self.types[cname] = d["types"]
            self._tstr[cname] = [None] * len(d["types"])
            for a in d["adts"]:
                a["crate"] = cname
                self.adts.setdefault(a["id"], a)
            for t in d["traits"]:
                t["crate"] = cname
                if t["id"] not in self.traits or t["local"]:
                    self.traits[t["id"]] = t
            for im in d["impls"]:
                im["crate"] = cname
                self.impls.append(im)
            for a in d.get("autos", []):
                self._autos_raw.append((cname, a))
            for u in d["unsafe_blocks"]:
                u["crate"] = cname
                self.unsafe_blocks.append(u)
            for x in d.get("fmts", []):
                x["crate"] = cname
                self.fmts.append(x)
            for r in d["fns"]:
                fn = Fn()
                fn.raw = r
                fn.id = r["id"]
                fn.name = r["name"]
                fn.kind = r["kind"]
                fn.crate = cname
                fn.file = r["file"]
                fn.line = r["line"]
                fn.end_line = r["end_line"]
                fn.expn = r["expn"]
                fn.macros = r.get("macros", [])
                fn.pub = r.get("pub")
                fn.impl = r.get("impl")
                fn.item_name = r.get("item_name")
                fn.argc = r["argc"]
                fn.locals = r["locals"]
                fn.names = r["names"]
                fn.blocks = r["blocks"]
                fn.root = r.get("root")
                fn.parent = r.get("parent")
                fn.trait_default_of = r.get("trait_default_of")
                fn._succ = fn._pred = fn._dom = None
                fn.key = None
                self.fns[fn.id] = fn
        for fn in self.fns.values():
            fn.key = self._key(fn)
        self._impl_index = None
        self._callgraph = None
        self.touched = set()  # ids of the functions rules asked for by key
        self.inline_helpers = None  # frozenset of helper ids to expand in by_key results (retry mode)
        self._inl_cache = {}

    # -- types ------------------------------------------------------------------------
    def tstr(self, crate, idx):
        """Canonical, crate-independent string of a type."""
        cache = self._tstr[crate]
        s = cache[idx]
        if s is not None:
            return s
        t = self.types[crate][idx]
        k = t["k"]

        def ga(args):
            out = []
            for a in args:
                if isinstance(a, int):
                    x = self.tstr(crate, a)
                    if x == "alloc::alloc::Global":
                        continue  # default allocator parameter: noise
                    out.append(x)
                elif isinstance(a, dict):
                    out.append("const " + a["const"])
            return ("<" + ", ".join(out) + ">") if out else ""

        if k == "prim":
            s = t["name"]
        elif k == "adt":
            s = t["id"] + ga(t["args"])
        elif k == "ref":
            s = ("&mut " if t["m"] else "&") + self.tstr(crate, t["t"])
        elif k == "ptr":
            s = ("*mut " if t["m"] else "*const ") + self.tstr(crate, t["t"])
        elif k == "slice":
            s = "[" + self.tstr(crate, t["t"]) + "]"
        elif k == "array":
            s = "[" + self.tstr(crate, t["t"]) + "; " + str(t["len"]) + "]"
        elif k == "tuple":
            s = "(" + ", ".join(self.tstr(crate, x) for x in t["of"]) + ")"
        elif k == "param":
            s = t["name"]
        elif k == "dyn":
            s = "dyn " + "+".join(t["traits"]) + ga(t["pargs"]) + "".join(
                "+" + a.rsplit("::", 1)[1] for a in sorted(t.get("autos", [])))
        elif k == "fndef":
            s = "fn#" + t["id"] + ga(t["args"])
        elif k == "closure":
            s = "{closure " + t["id"] + "}"
        elif k == "fnptr":
            s = "fnptr " + t["s"]
        elif k == "alias":
            s = "alias " + t["s"]
        else:
            s = "other " + t.get("s", t.get("id", "?"))
        cache[idx] = s
        return s

    def ty(self, crate, idx):
        return self.types[crate][idx]

    def autos(self):
        """type string -> {send, sync, freeze} as decided by rustc's trait solver for closed types."""
        if self._autos is None:
            m = {}
            for cname, a in self._autos_raw:
                m[self.tstr(cname, a["ty"])] = a
            self._autos = m
        return self._autos

    def local_ty(self, fn, local):
        return self.tstr(fn.crate, fn.locals[local])

    def local_tyj(self, fn, local):
        return self.types[fn.crate][fn.locals[local]]

    # -- keys -------------------------------------------------------------------------
    def _key(self, fn):
        """Readable key that does not depend on impl ordinals or line numbers."""
        if fn.kind == "promoted":
            po = self.fns.get(fn.raw.get("promoted_of"))
            base = (po.key or self._key(po)) if po is not None else fn.raw.get("promoted_of", "?")
            return base + fn.id[fn.id.rindex("::{promoted#"):]
        if fn.impl is not None:
            st = self.tstr(fn.crate, fn.impl["self"])
            if fn.impl.get("trait"):
                ta = fn.impl.get("trait_args", [])[1:]
                tas = [self.tstr(fn.crate, a) for a in ta if isinstance(a, int)]
                tr = fn.impl["trait"] + (("<" + ", ".join(tas) + ">") if tas else "")
                return "<%s as %s>::%s" % (st, tr, fn.item_name)
            return "<%s>::%s" % (st, fn.item_name)
        if fn.kind == "closure":
            root = self.fns.get(fn.root)
            base = root.key if root is not None and root.key else fn.root
            if base is None or (root is not None and root.key is None):
                base = self._key(root) if root is not None else fn.root
            tail = fn.id[len(fn.root):] if fn.root and fn.id.startswith(fn.root) else fn.id
            return base + tail
        return fn.id

    def by_key(self, key):
        r = [f for f in self.fns.values() if f.key == key]
        self.touched.update(f.id for f in r)
        if self.inline_helpers:
            r = [self._inlined(f) for f in r]
        return r

    def view(self, fn):
        """The function as rules should look at it: itself, or (retry mode) with the selected helpers expanded."""
        self.touched.add(fn.id)
        return self._inlined(fn) if self.inline_helpers else fn

    def _inlined(self, fn):
        """The view of fn with the currently selected private helpers expanded in place (see inline.py)."""
        ck = (fn.id, self.inline_helpers)
        if ck not in self._inl_cache:
            import inline
            new, n = inline.inlined(self, fn, self.inline_helpers)
            self._inl_cache[ck] = new if n else fn
        return self._inl_cache[ck]

    def fn_by_key(self, key):
        r = self.by_key(key)
        if len(r) != 1:
            raise AnchorMissing("function", key, "found %d" % len(r))
        return r[0]

    # -- impl index -------------------------------------------------------------------
    def impl_index(self):
        """(trait id, method name) -> list of fn ids implementing it in workspace crates."""
        if self._impl_index is None:
            idx = {}
            for im in self.impls:
                tr = im.get("trait")
                if not tr:
                    continue
                for it in im["items"]:
                    if it["is_fn"]:
                        idx.setdefault((tr, it["name"]), []).append(it["id"])
            self._impl_index = idx
        return self._impl_index

    def impls_of(self, trait_id):
        return [im for im in self.impls if im.get("trait") == trait_id]

    def impl_self_str(self, im):
        return self.tstr(im["crate"], im["self"])

    # -- CFG --------------------------------------------------------------------------
    def succ(self, fn):
        if fn._succ is None:
            out = []
            for b in fn.blocks:
                t = b["t"]
                k = t["k"]
                if k in ("goto", "drop", "assert"):
                    out.append([t["t"]])
                elif k == "call":
                    out.append([t["t"]] if t["t"] is not None else [])
                elif k == "switch":
                    ss = [x[1] for x in t["t"]] + [t["else"]]
                    seen = []
                    for x in ss:
                        if x not in seen:
                            seen.append(x)
                    out.append(seen)
                else:
                    out.append([])
            fn._succ = out
        return fn._succ

    def pred(self, fn):
        if fn._pred is None:
            s = self.succ(fn)
            p = [[] for _ in s]
            for a, ss in enumerate(s):
                for b in ss:
                    p[b].append(a)
            fn._pred = p
        return fn._pred

    def reach(self, fn, start_blocks, stop=()):
        """Blocks reachable from the *entry* of the given blocks (inclusive)."""
        s = self.succ(fn)
        seen = set()
        work = [b for b in start_blocks if b not in stop]
        while work:
            b = work.pop()
            if b in seen:
                continue
            seen.add(b)
            for n in s[b]:
                if n not in seen and n not in stop:
                    work.append(n)
        return seen

    def dom(self, fn):
        """Immediate-dominator-free dominator sets (bitsets as python ints)."""
        if fn._dom is None:
            n = len(fn.blocks)
            s = self.succ(fn)
            p = self.pred(fn)
            reachable = self.reach(fn, [0])
            full = (1 << n) - 1
            d = [full] * n
            d[0] = 1
            changed = True
            order = [b for b in range(n) if b in reachable]
            while changed:
                changed = False
                for b in order:
                    if b == 0:
                        continue
                    nd = full
                    for q in p[b]:
                        if q in reachable:
                            nd &= d[q]
                    nd |= 1 << b
                    if nd != d[b]:
                        d[b] = nd
                        changed = True
            fn._dom = d
        return fn._dom

    def dominates(self, fn, a, b):
        return bool((self.dom(fn)[b] >> a) & 1)

    # -- calls ------------------------------------------------------------------------
    def calls(self, fn):
        """Yield (block index, terminator) for every call terminator."""
        for i, b in enumerate(fn.blocks):
            if b["t"]["k"] == "call":
                yield i, b["t"]

    @staticmethod
    def callee_id(t):
        f = t.get("f")
        if not f:
            return None
        r = f.get("res")
        if r and r.get("kind") != "Virtual":
            return r["id"]
        return f["id"]

    @staticmethod
    def callee_decl(t):
        f = t.get("f")
        return f["id"] if f else None

    def _impl_fn_index(self):
        """(trait id, self type string) -> {method name: fn id} over workspace impls."""
        if getattr(self, "_ifi", None) is None:
            idx = {}
            for im in self.impls:
                tr = im.get("trait")
                if not tr:
                    continue
                key = (tr, self.impl_self_str(im))
                d = idx.setdefault(key, {})
                rhs = None
                ta = im.get("trait_args", [])
                if len(ta) > 1 and isinstance(ta[1], int):
                    rhs = self.tstr(im["crate"], ta[1])
                for it in im["items"]:
                    if it["is_fn"]:
                        d.setdefault(it["name"], []).append((rhs, it["id"]))
            self._ifi = idx
        return self._ifi

    def _std_bridge_targets(self, crate, f):
        """Edges hidden inside std's blanket impls: Into::into -> From::from, ToString/format -> Display::fmt."""
        fid = f["id"]
        targs = [self.tstr(crate, a) for a in f.get("args", []) if isinstance(a, int)]
        idx = self._impl_fn_index()
        out = []
        if fid == "core::convert::Into::into" and len(targs) >= 2:
            for rhs, i in idx.get(("core::convert::From", targs[1]), {}).get("from", []):
                if rhs == targs[0]:
                    out.append(i)
        elif fid in ("core::fmt::rt::{impl#0}::new_display", "alloc::string::ToString::to_string") and targs:
            ty = targs[-1] if fid.startswith("core::fmt") else targs[0]
            ty = ty.lstrip("&")
            for rhs, i in idx.get(("core::fmt::Display", ty), {}).get("fmt", []):
                out.append(i)
        elif fid == "core::fmt::rt::{impl#0}::new_debug" and targs:
            ty = targs[-1].lstrip("&")
            for rhs, i in idx.get(("core::fmt::Debug", ty), {}).get("fmt", []):
                out.append(i)
        elif fid == "core::convert::TryInto::try_into" and len(targs) >= 2:
            for rhs, i in idx.get(("core::convert::TryFrom", targs[1]), {}).get("try_from", []):
                if rhs == targs[0]:
                    out.append(i)
        elif fid == "core::str::{impl#0}::parse" or fid.endswith("str::parse"):
            if targs:
                for rhs, i in idx.get(("core::str::traits::FromStr", targs[0]), {}).get("from_str", []):
                    out.append(i)
        return [i for i in out if i in self.fns]

    def callee_targets(self, t, crate=None):
        """Workspace functions a call may reach (static target or CHA over impls)."""
        f = t.get("f")
        if not f:
            return []
        if crate is not None and not f["krate"].startswith("liquid"):
            b = self._std_bridge_targets(crate, f)
            if b:
                return b
        r = f.get("res")
        tr = f.get("trait")
        if r and r.get("kind") == "Item" and not (tr and r["id"] == f["id"] and self._is_required(tr, f["id"])):
            if r["id"] in self.fns:
                # resolved to an item; a trait default body resolved for an unknown Self still dispatches
                if tr and r["id"] == f["id"]:
                    return self._cha(tr, f["id"], f, crate)
                return [r["id"]]
            if tr and r["id"] == f["id"]:
                return self._cha(tr, f["id"], f, crate)
            return []
        if tr:
            return self._cha(tr, f["id"], f, crate)
        return [f["id"]] if f["id"] in self.fns else []

    def _is_required(self, trait_id, mid):
        t = self.traits.get(trait_id)
        if not t:
            return False
        for m in t["methods"]:
            if m["id"] == mid:
                return not m["has_default"]
        return False

    def _cha(self, trait_id, mid, f=None, crate=None):
        name = mid.rsplit("::", 1)[1]
        out = []
        want_rhs = want_self = None
        if f is not None and crate is not None:
            targs = [self.tstr(crate, a) if isinstance(a, int) else None for a in f.get("args", [])]
            if len(targs) > 1 and targs[1] and self._is_concrete(targs[1]):
                want_rhs = targs[1]
            if targs and targs[0] and self._is_concrete(targs[0]) and not targs[0].startswith("dyn "):
                want_self = targs[0]
        for im in self.impls:
            if im.get("trait") != trait_id:
                continue
            if want_rhs is not None:
                ta = im.get("trait_args", [])
                if len(ta) > 1 and isinstance(ta[1], int):
                    r = self.tstr(im["crate"], ta[1])
                    if self._is_concrete(r) and r != want_rhs:
                        continue
            if want_self is not None:
                st = self.impl_self_str(im)
                if self._is_concrete(st) and st.split("<")[0].lstrip("&") != want_self.split("<")[0].lstrip("&"):
                    continue
            for it in im["items"]:
                if it["is_fn"] and it["name"] == name and it["id"] in self.fns:
                    out.append(it["id"])
        if mid in self.fns:
            out.append(mid)
        return out

    @staticmethod
    def _is_concrete(s):
        """A type string with no bare type parameter at its head (heuristic: params are short capitalised idents)."""
        head = s.lstrip("&").replace("mut ", "").split("<")[0]
        return "::" in head or head in ("str", "bool", "char", "i64", "f64", "i32", "u8", "usize", "isize", "u64", "u32", "f32", "i8", "i16", "u16", "()") or head.startswith(("[", "(", "dyn "))

    def callgraph(self):
        if self._callgraph is None:
            g = {}
            for fn in self.fns.values():
                out = set()
                for b in fn.blocks:
                    t = b["t"]
                    if t["k"] == "call":
                        out.update(self.callee_targets(t, fn.crate))
                        for a in t["args"]:
                            self._fn_operand_targets(a, out)
                    for st in b["s"]:
                        if st[0] == "a":
                            rv = st[2]
                            if rv["k"] == "agg":
                                if rv.get("ak") == "closure" and rv["id"] in self.fns:
                                    out.add(rv["id"])
                                for o in rv["ops"]:
                                    self._fn_operand_targets(o, out)
                            elif rv["k"] in ("use", "cast"):
                                self._fn_operand_targets(rv["o"], out)
                g[fn.id] = out
            self._callgraph = g
        return self._callgraph

    def _fn_operand_targets(self, op, out):
        if op[0] == "k" and isinstance(op[1], dict) and "fn" in op[1]:
            f = op[1]["fn"]
            out.update(self.callee_targets({"f": f}))
            # closures passed by value are zero-sized fndef-like constants only for fn items

    def reachable_fns(self, roots):
        g = self.callgraph()
        seen = set()
        work = list(roots)
        while work:
            x = work.pop()
            if x in seen or x not in g:
                continue
            seen.add(x)
            work.extend(g[x] - seen)
        return seen

    def fmts_in(self, fn):
        """format_args! sites lexically inside fn (closures included)."""
        return [x for x in self.fmts if x["crate"] == fn.crate and x["file"] == fn.file and fn.line <= x["line"] <= fn.end_line]

    def where(self, fn, line=None):
        return "%s:%s" % (fn.file, line if line is not None else fn.line)


class AnchorMissing(Exception):
    def __init__(self, kind, name, detail=""):
        Exception.__init__(self, "anchor missing: %s %s %s" % (kind, name, detail))
        self.kind = kind
        self.name = name
        self.detail = detail


_loaded = {}


def load(config="all", repo=None):
    key = (config, repo or REPO)
    if key not in _loaded:
        d = produce(config, repo)
        _loaded[key] = Program(config, d)
    return _loaded[key]


if __name__ == "__main__":
    cfg = sys.argv[1] if len(sys.argv) > 1 else "all"
    t0 = time.time()
    p = load(cfg)
    print("config", cfg, "dir", p.dir, "crates", p.crates, "fns", len(p.fns), "%.1fs" % (time.time() - t0))
