"""R-WPROP: every Result produced by a sink write / child render must be propagated to the
function's own return on every path, and nothing may be written while a failure is pending.

Path-sensitive token tracking over MIR.  A token is the Result value of one source call.
Kinds: R (the Result), CF (ControlFlow returned by Try::branch), RES (the residual moved out
of ControlFlow::Break), ERRV (the payload moved out of Result::Err).
"""
from facts import LIB_CRATES

IO_WRITE = "std::io::Write"
RENDERABLE = "liquid_core::runtime::renderable::Renderable"
INFALLIBLE_SINKS = ("alloc::vec::Vec<u8>", "alloc::string::String")

ADAPTER_TRAITS = (
    "liquid_core::error::result_ext::ResultLiquidReplaceExt",
    "liquid_core::error::result_ext::ResultLiquidChainExt",
    "liquid_core::error::result_ext::ResultLiquidExt",
)
ADAPTER_NAMES = (
    "std::result::Result::<T, E>::map_err",
    "std::convert::Into::into",
    "std::convert::From::from",
    "error::result_ext::Key::<T>::value",
    "error::result_ext::Key::<T>::value_with",
    "error::result_ext::FnKey::<T, F>::value",
    "error::result_ext::FnKey::<T, F>::value_with",
    "liquid_core::error::Key::<T>::value",
    "liquid_core::error::Key::<T>::value_with",
    "liquid_core::error::FnKey::<T, F>::value",
    "liquid_core::error::FnKey::<T, F>::value_with",
)
BRANCH = "core::ops::try_trait::Try::branch"
FROM_RESIDUAL = "core::ops::try_trait::FromResidual::from_residual"


def op_local(op):
    """(local, projection) of a place operand, or None for constants."""
    if op[0] in ("c", "m"):
        return op[1][0], op[1][1]
    return None


def is_adapter(f):
    if f.get("trait") in ADAPTER_TRAITS:
        return True
    n = f.get("name", "")
    if n in ADAPTER_NAMES:
        return True
    if n.startswith("std::result::Result::<") and n.endswith(">::map_err"):
        return True
    if f["id"].startswith("liquid_core::error::result_ext::") and f["id"].rsplit("::", 1)[1] in (
        "value", "value_with", "new"):
        return True
    return False


class Tracker:
    """Follow one token from its source to its fate on every path."""

    def __init__(self, P, fn, is_sink_call):
        self.P = P
        self.fn = fn
        self.is_sink_call = is_sink_call
        self.problems = []  # (what, line)
        self.fates = set()

    def problem(self, what, line):
        if (what, line) not in self.problems:
            self.problems.append((what, line))

    def run(self, bi, si, holders):
        """Start after statement index si-1 of block bi with holders {local: kind}."""
        seen = set()
        work = [(bi, si, frozenset(holders.items()))]
        succ = self.P.succ(self.fn)
        while work:
            b, s, hs = work.pop()
            key = (b, s, hs)
            if key in seen:
                continue
            seen.add(key)
            h = dict(hs)
            blk = self.fn.blocks[b]
            dead = False
            for st in blk["s"][s:]:
                if not h:
                    break
                if st[0] == "a":
                    lhs, rv, line = st[1], st[2], st[3]
                    self._assign(h, lhs, rv, line)
                elif st[0] == "sd":
                    if st[1] in h and h[st[1]] in ("R", "CF", "RES", "ERRV"):
                        self.problem("result discarded (storage ends without it being examined)", blk["t"]["line"])
                        del h[st[1]]
            if not h:
                self.fates.add("done")
                continue
            t = blk["t"]
            k = t["k"]
            line = t.get("line")
            if k == "return":
                if 0 in h:
                    self.fates.add("returned")
                else:
                    self.problem("function returns without propagating the result", line)
                continue
            if k == "drop":
                pl = t["p"]
                if pl[0] in h and not pl[1]:
                    if pl[0] == 0:
                        pass
                    else:
                        self.problem("result dropped without being propagated", line)
                        del h[pl[0]]
                if h:
                    work.append((t["t"], 0, frozenset(h.items())))
                else:
                    self.fates.add("done")
                continue
            if k == "call":
                f = t.get("f")
                used = []
                for a in t["args"]:
                    ol = op_local(a)
                    if ol and ol[0] in h and not ol[1]:
                        used.append(ol[0])
                if self.is_sink_call(self.fn, t) and not used:
                    self.problem("another sink write / child render happens while an unexamined result is pending", line)
                if used:
                    src = used[0]
                    kind = h[src]
                    for u in used:
                        del h[u]
                    d = t["d"]
                    did = f["id"] if f else None
                    if f and did == BRANCH and kind == "R":
                        if not d[1]:
                            h[d[0]] = "CF"
                    elif f and did == FROM_RESIDUAL and kind == "RES":
                        if d[0] == 0 and not d[1]:
                            h[0] = "R"
                            self.fates.add("from_residual")
                        else:
                            self.problem("residual converted but not into the return place", line)
                    elif f and is_adapter(f):
                        if not d[1]:
                            h[d[0]] = kind
                        else:
                            self.problem("result stored into a projection", line)
                    else:
                        nm = f["name"] if f else "indirect call"
                        self.problem("result consumed by `%s` instead of being propagated" % nm, line)
                else:
                    # destination overwrite
                    d = t["d"]
                    if d[0] in h and not d[1]:
                        self.problem("pending result overwritten by a call result", line)
                        del h[d[0]]
                if t["t"] is not None and h:
                    work.append((t["t"], 0, frozenset(h.items())))
                elif not h:
                    self.fates.add("done")
                continue
            if k == "switch":
                ol = op_local(t["o"])
                holder = None
                if ol and not ol[1]:
                    x = ol[0]
                    for st in reversed(blk["s"]):
                        if st[0] == "a" and st[1][0] == x and not st[1][1] and st[2]["k"] == "discr":
                            p = st[2]["p"]
                            if p[0] in h and not p[1]:
                                holder = p[0]
                            break
                if holder is not None:
                    for val, tb in t["t"]:
                        hh = dict(h)
                        if val == 0:
                            # Ok / Continue: the token carried no failure on this path
                            del hh[holder]
                            self.fates.add("ok-path")
                            if hh:
                                work.append((tb, 0, frozenset(hh.items())))
                        else:
                            self.fates.add("err-path")
                            work.append((tb, 0, frozenset(hh.items())))
                    # otherwise-branch of an exhaustive 2-variant switch is unreachable
                    eb = t["else"]
                    if self.fn.blocks[eb]["t"]["k"] != "unreachable" and eb not in [x[1] for x in t["t"]]:
                        work.append((eb, 0, frozenset(h.items())))
                else:
                    for nb in succ[b]:
                        work.append((nb, 0, frozenset(h.items())))
                continue
            if k == "assert" or k == "goto":
                work.append((t["t"], 0, frozenset(h.items())))
                continue
            if k == "unreachable":
                continue
            self.problem("unsupported terminator %s with a pending result" % k, line)
        return self.problems

    def _assign(self, h, lhs, rv, line):
        k = rv["k"]
        ll, lp = lhs
        if k == "use":
            ol = op_local(rv["o"])
            if ol and ol[0] in h:
                src, proj = ol
                kind = h[src]
                if not proj:
                    del h[src]
                    if not lp:
                        h[ll] = kind
                    else:
                        self.problem("result stored into a field/projection", line)
                    return
                # moving a payload out of the token
                if kind == "CF" and proj and proj[0][0] == "v" and proj[0][1] == 1:
                    del h[src]
                    if not lp:
                        h[ll] = "RES"
                    return
                if kind == "CF" and proj and proj[0][0] == "v" and proj[0][1] == 0:
                    return  # reading the Continue payload
                if kind == "R" and proj and proj[0][0] == "v" and proj[0][1] == 1:
                    del h[src]
                    if not lp:
                        h[ll] = "ERRV"
                    return
                if kind == "R" and proj and proj[0][0] == "v" and proj[0][1] == 0:
                    return
                return
        if k == "agg":
            for o in rv["ops"]:
                ol = op_local(o)
                if ol and ol[0] in h and not ol[1]:
                    kind = h[ol[0]]
                    del h[ol[0]]
                    if kind == "ERRV" and rv.get("ak") == "adt" and rv.get("id") == "core::result::Result" and rv.get("vname") == "Err" and not lp:
                        h[ll] = "R"
                    else:
                        self.problem("result wrapped into an aggregate instead of being propagated", line)
                    return
        if not lp and ll in h and ll != 0:
            # overwritten
            self.problem("pending result overwritten", line)
            del h[ll]


def sink_sources(P, fn):
    """(block index, terminator, label) of calls whose Result must be propagated."""
    out = []
    for bi, t in P.calls(fn):
        f = t.get("f")
        if not f:
            continue
        dty = P.local_ty(fn, t["d"][0]) if not t["d"][1] else ""
        if f.get("trait") == IO_WRITE:
            st = P.tstr(fn.crate, f["self_ty"]) if "self_ty" in f else "?"
            if st in INFALLIBLE_SINKS:
                continue
            out.append((bi, t, "sink:" + f["id"].rsplit("::", 1)[1]))
        elif f["id"] in (RENDERABLE + "::render_to", RENDERABLE + "::render"):
            out.append((bi, t, "child:" + f["id"].rsplit("::", 1)[1]))
        elif dty.startswith("core::result::Result<") and _takes_sink(P, fn, t):
            out.append((bi, t, "helper:" + f["id"].rsplit("::", 1)[1]))
    return out


def _takes_sink(P, fn, t):
    for a in t["args"]:
        ol = op_local(a)
        if ol and not ol[1]:
            ty = P.local_ty(fn, ol[0])
            if ty == "&mut dyn std::io::Write":
                return True
    return False


def is_sink_call(P):
    def pred(fn, t):
        f = t.get("f")
        if not f:
            return False
        if f.get("trait") == IO_WRITE:
            st = P.tstr(fn.crate, f["self_ty"]) if "self_ty" in f else "?"
            return st not in INFALLIBLE_SINKS
        if f["id"] in (RENDERABLE + "::render_to", RENDERABLE + "::render"):
            return True
        return _takes_sink(P, fn, t)
    return pred


def run(P, rep):
    pred = is_sink_call(P)
    n_fn = 0
    for fn in sorted(P.fns.values(), key=lambda f: f.id):
        if fn.crate not in LIB_CRATES:
            continue
        srcs = sink_sources(P, fn)
        if not srcs:
            continue
        n_fn += 1
        ordn = {}
        for bi, t, label in srcs:
            o = ordn.get(label, 0)
            ordn[label] = o + 1
            site = "%s %s#%d" % (fn.key, label, o)
            where = P.where(fn, t["line"])
            d = t["d"]
            tr = Tracker(P, fn, pred)
            if d[1]:
                rep.viol("R-WPROP", site, where, "result of a sink call stored into a projection")
                continue
            if t["t"] is None:
                rep.ok("R-WPROP", site, where, "call diverges")
                continue
            probs = tr.run(t["t"], 0, {d[0]: "R"})
            cname = "R-WPROP." + label.split(":")[0]
            rep.count(cname)
            if probs:
                for what, line in probs:
                    rep.viol("R-WPROP", site, P.where(fn, line), what, {"function": fn.key, "source_line": t["line"]})
            else:
                how = "propagated via " + ("`?` (Try::branch -> from_residual -> _0 -> return)" if "from_residual" in tr.fates else "direct return")
                rep.ok("R-WPROP", site, where, how)
    rep.analysed["R-WPROP.functions_with_sources"] = n_fn


def run_adapters(P, rep):
    """The adapters the rule trusts must themselves keep an Err an Err: in every impl of the
    result-extension traits the `self` Result flows into the return value through adapters only."""
    for fn in sorted(P.fns.values(), key=lambda f: f.id):
        if fn.kind != "method" or not fn.impl:
            continue
        if fn.impl.get("trait") not in ADAPTER_TRAITS:
            continue
        st = P.tstr(fn.crate, fn.impl["self"])
        if not st.startswith("core::result::Result<"):
            continue
        site = fn.key
        where = P.where(fn)
        tr = Tracker(P, fn, lambda f, t: False)
        if fn.item_name in ("context_key", "context_key_with"):
            # builds a Key/FnKey holding the result; finished by value()/value_with() (checked below)
            rep.ok("R-WPROP.adapter", site, where, "builder: result stored in Key/FnKey")
            continue
        probs = tr.run(0, 0, {1: "R"})
        if probs:
            for what, line in probs:
                rep.viol("R-WPROP.adapter", site, P.where(fn, line), "adapter does not pass its receiver through: " + what)
        else:
            rep.ok("R-WPROP.adapter", site, where, "receiver flows to the return value via map_err/adapters")


def run_fmt(P, rep):
    """Same discipline one layer down: fmt::Result inside Display/Debug-free `fmt` impls of
    model types (std's io::Write::write_fmt adapter does not stop a Display impl that
    swallowed an error and keeps writing)."""
    def fmt_sink(fn, t):
        for a in t["args"]:
            ol = op_local(a)
            if ol and not ol[1] and P.local_ty(fn, ol[0]).startswith("&mut core::fmt::Formatter"):
                return True
        return False

    for fn in sorted(P.fns.values(), key=lambda f: f.id):
        if fn.crate not in LIB_CRATES or fn.kind != "method" or not fn.impl:
            continue
        if fn.impl.get("trait") != "core::fmt::Display" or fn.expn:
            continue
        ordn = 0
        for bi, t in P.calls(fn):
            if t["d"][1]:
                continue
            dty = P.local_ty(fn, t["d"][0])
            if dty != "core::result::Result<(), core::fmt::Error>":
                continue
            site = "%s fmt#%d" % (fn.key, ordn)
            ordn += 1
            where = P.where(fn, t["line"])
            if t["t"] is None:
                continue
            tr = Tracker(P, fn, fmt_sink)
            probs = tr.run(t["t"], 0, {t["d"][0]: "R"})
            if probs:
                for what, line in probs:
                    rep.viol("R-WPROP.fmt", site, P.where(fn, line), what)
            else:
                rep.ok("R-WPROP.fmt", site, where, "fmt::Result propagated")


def run_sink_identity(P, rep, rule="R-SINKPASS"):
    """Whatever is handed on as `&mut dyn Write` is the caller's own sink (a reborrow of the writer parameter) or a fresh
    local Vec<u8> buffer — never an adapter wrapped around the sink (buffering adapters surface errors at flush/drop,
    where they are lost, and reorder the failure point)."""
    from r_scope import unsize_source
    n = 0
    for fn in sorted(P.fns.values(), key=lambda f: f.id):
        if fn.crate not in LIB_CRATES:
            continue
        # which parameter (if any) is the sink
        sink_params = [l for l in range(1, fn.argc + 1) if P.local_ty(fn, l) == "&mut dyn std::io::Write"]
        ordn = 0
        for bi, t in P.calls(fn):
            for k, a in enumerate(t["args"]):
                ol = op_local(a)
                if not ol or ol[1] or P.local_ty(fn, ol[0]) != "&mut dyn std::io::Write":
                    continue
                n += 1
                site = "%s sink-arg#%d" % (fn.key, ordn)
                ordn += 1
                kind, v = unsize_source(P, fn, ol[0])
                where = P.where(fn, t["line"])
                if kind == "passthrough" and v in sink_params:
                    rep.ok(rule, site, where, "the caller's own writer is handed on")
                elif kind == "unsize" and v in ("&mut alloc::vec::Vec<u8>",):
                    rep.ok(rule, site, where, "a local Vec<u8> buffer")
                elif kind == "unsize" and v.startswith("&mut ") and sink_params == [] and "Vec<u8>" in v:
                    rep.ok(rule, site, where, "a local Vec<u8> buffer")
                else:
                    rep.viol(rule, site, where,
                             "the sink handed on is %s, not the caller's writer itself: an adapter around the sink (buffering, wrapping) "
                             "reports failures late or drops them at flush/Drop, so render_to can return Ok after a failed write" % (v if kind == "unsize" else kind))
    rep.analysed[rule + ".sink_args"] = n
