"""R-SCOPETYPE / R-RTCALLS / R-NEWRUNTIME: which concrete runtime layers a construct builds and
hands to its body, and which Runtime operations a renderable performs itself."""
import re
from mirutil import op_local, defs_of
from r_fwd import RUNTIME, Profile

RENDER_TO = "liquid_core::runtime::renderable::Renderable::render_to"
HM = r"&std::collections::hash::map::HashMap<kstring::string_ref::KStringRef, [^>]*(?:<[^>]*>)?[^>]*>"

RB = "liquid_core::runtime::runtime::"
ST = "liquid_core::runtime::stack::"
BUILD_TYPE = (ST + "GlobalFrame<" + ST + "StackFrame<" + ST + "IndexFrame<" + RB + "RuntimeCore>, "
              "&dyn liquid_core::model::object::ObjectView>>")


def short(ty):
    """Layer skeleton of a runtime type: Global<Sandbox<dyn>> etc."""
    t = ty
    t = re.sub(r"&std::collections::hash::map::HashMap<.*?RandomState>", "&HashMap", t)
    t = t.replace(ST, "").replace(RB, "").replace("liquid_core::model::object::", "")
    return t


def unsize_source(P, fn, local, depth=12):
    """Type of the value before it was coerced to a trait object; ('passthrough', local) if it is
    an existing trait-object value."""
    cur = local
    for _ in range(depth):
        ds = defs_of(fn, cur)
        if len(ds) != 1:
            return ("passthrough", cur)
        kind, bi, si, d = ds[0]
        if kind == "c":
            return ("call", d)
        if d["k"] == "cast":
            if "Unsize" in d["ck"] and not P.tstr(fn.crate, d["from"]).startswith(("&dyn ", "&mut dyn ")):
                return ("unsize", P.tstr(fn.crate, d["from"]))
            ol = op_local(d["o"])
            if not ol:
                return ("const", None)
            cur = ol[0]
        elif d["k"] == "use":
            ol = op_local(d["o"])
            if not ol:
                return ("const", None)
            if ol[1]:
                return ("passthrough", ol[0])
            cur = ol[0]
        elif d["k"] == "ref":
            pl = d["p"]
            if all(p[0] == "d" for p in pl[1]) and pl[1]:
                cur = pl[0]
            else:
                return ("ref", P.local_ty(fn, pl[0]) if not pl[1] else None)
        else:
            return ("other", None)
    return ("passthrough", cur)


def render_calls(P, fn):
    return [(bi, t) for bi, t in P.calls(fn) if t.get("f") and t["f"]["id"] == RENDER_TO]


def runtime_arg_kind(P, fn, t):
    ol = op_local(t["args"][2])
    if not ol:
        return ("const", None)
    k, v = unsize_source(P, fn, ol[0])
    if k == "unsize":
        return ("frame", short(v))
    if k == "passthrough":
        return ("passthrough", v)
    return (k, v)


SCOPE_SPEC = {
    # fn key -> list of expected runtime-argument shapes of its render_to calls (multiset)
    "<liquid_lib::stdlib::tags::render_tag::Render as liquid_core::runtime::renderable::Renderable>::render_to":
        ["&GlobalFrame<SandboxedStackFrame<&dyn Runtime, &HashMap>>", "&GlobalFrame<SandboxedStackFrame<&dyn Runtime, &HashMap>>"],
    "<liquid_lib::stdlib::tags::include_tag::Include as liquid_core::runtime::renderable::Renderable>::render_to":
        ["&StackFrame<&dyn Runtime, &HashMap>"],
    "<liquid_lib::jekyll::include_tag::Include as liquid_core::runtime::renderable::Renderable>::render_to":
        ["&StackFrame<&dyn Runtime, &HashMap>"],
    "<liquid_lib::stdlib::blocks::for_block::For as liquid_core::runtime::renderable::Renderable>::render_to":
        ["&StackFrame<&dyn Runtime, &HashMap>", "passthrough"],
    "<liquid_lib::stdlib::blocks::for_block::TableRow as liquid_core::runtime::renderable::Renderable>::render_to":
        ["&StackFrame<&dyn Runtime, &HashMap>"],
    "<liquid_lib::stdlib::blocks::if_block::Conditional as liquid_core::runtime::renderable::Renderable>::render_to":
        ["passthrough", "passthrough"],
    "<liquid_lib::stdlib::blocks::case_block::Case as liquid_core::runtime::renderable::Renderable>::render_to":
        ["passthrough", "passthrough"],
    "<liquid_lib::stdlib::blocks::ifchanged_block::IfChanged as liquid_core::runtime::renderable::Renderable>::render_to":
        ["passthrough"],
    "<liquid_lib::stdlib::blocks::capture_block::Capture as liquid_core::runtime::renderable::Renderable>::render_to":
        ["passthrough"],
    "<liquid_core::runtime::template::Template as liquid_core::runtime::renderable::Renderable>::render_to":
        ["passthrough"],
}


def run_scopetype(P, rep, keys=None, rule="R-SCOPETYPE"):
    for key, want in sorted(SCOPE_SPEC.items()):
        if keys and key not in keys:
            continue
        fns = P.by_key(key)
        if len(fns) != 1:
            rep.anchor_missing(rule, key)
            continue
        fn = fns[0]
        got = []
        for bi, t in render_calls(P, fn):
            k, v = runtime_arg_kind(P, fn, t)
            if k == "frame":
                got.append(v.replace("dyn Runtime", "dyn Runtime"))
            elif k == "passthrough":
                # must be the function's own runtime parameter (local 3 of render_to)
                got.append("passthrough" if v == 3 else "passthrough(_%s)" % v)
            else:
                got.append("%s:%s" % (k, v))
        site = key.split(" as ")[0].lstrip("<").rsplit("::", 1)[-1] + "::render_to scope"
        if sorted(got) != sorted(want):
            rep.viol(rule, site, P.where(fn),
                     "body is rendered in runtime layers %s; the scoping rules need %s" % (sorted(got), sorted(want)),
                     {"function": key})
        else:
            rep.ok(rule, site, P.where(fn), "render_to runtime arguments: %s" % got)
        # every frame constructed here wraps the function's own runtime parameter
        for bi, t in P.calls(fn):
            f = t.get("f")
            if f and f["id"].startswith(ST) and f["id"].endswith("::new") and "SandboxedStackFrame" in f["name"] + f["id"] or \
               (f and f["id"].startswith(ST) and f["id"].endswith("::new") and "StackFrame" in f["name"]):
                ol = op_local(t["args"][0])
                if ol:
                    k, v = unsize_source(P, fn, ol[0])
                    pty = P.local_ty(fn, ol[0])
                    if pty == "&dyn " + RUNTIME and not (k == "passthrough" and v == 3):
                        rep.viol(rule, site + " parent", P.where(fn, t["line"]),
                                 "a scope is layered over something other than the caller's runtime")


def run_build(P, rep, rule="R-SCOPETYPE"):
    fns = P.by_key("<" + RB + "RuntimeBuilder>::build")
    if len(fns) != 1:
        rep.anchor_missing(rule, "RuntimeBuilder::build")
        return
    fn = fns[0]
    ty = P.local_ty(fn, 0)
    if ty != BUILD_TYPE:
        rep.viol(rule, "RuntimeBuilder::build layers", P.where(fn),
                 "the per-render runtime is %s; precedence (assign/capture over caller data over counters) needs %s"
                 % (short(ty), short(BUILD_TYPE)))
    else:
        rep.ok(rule, "RuntimeBuilder::build layers", P.where(fn), short(ty))
    # the caller's globals go into the StackFrame's data, nowhere else
    ok = False
    for bi, t in P.calls(fn):
        f = t.get("f")
        if f and f["id"].endswith("StackFrame::new") or (f and "StackFrame::<P, O>::new" in f["name"]):
            ol = op_local(t["args"][1])
            if ol:
                from origins import backward_slice
                locs, calls = backward_slice(fn, ol[0])
                if 1 in locs:
                    ok = True
    if ok:
        rep.ok(rule, "RuntimeBuilder::build globals", P.where(fn), "StackFrame data derives from self.globals")
    else:
        rep.viol(rule, "RuntimeBuilder::build globals", P.where(fn), "caller globals are not the StackFrame's data")
    # RuntimeCore (whose set_global/set_index diverge) is constructed only here / in Default
    for f2 in P.fns.values():
        if f2.crate not in ("liquid", "liquid_core", "liquid_lib"):
            continue
        for b in f2.blocks:
            for st in b["s"]:
                if st[0] == "a" and st[2]["k"] == "agg" and st[2].get("id") == RB + "RuntimeCore":
                    if f2.key not in ("<" + RB + "RuntimeBuilder>::build",
                                      "<" + RB + "RuntimeCore as core::default::Default>::default"):
                        rep.viol(rule, "RuntimeCore constructed in " + f2.key, P.where(f2, st[3]),
                                 "RuntimeCore built outside RuntimeBuilder::build: its unreachable! base cases may be unmasked")
    for f2 in P.fns.values():
        if f2.crate not in ("liquid", "liquid_core", "liquid_lib"):
            continue
        for bi, t in P.calls(f2):
            f = t.get("f")
            if not f:
                continue
            rid = (f.get("res") or {}).get("id", f["id"])
            if rid in (RB + "{impl#%d}::new" % k for k in range(40)) and "RuntimeCore" in f["name"]:
                rep.viol(rule, "RuntimeCore::new called in " + f2.key, P.where(f2, t["line"]), "bare RuntimeCore escapes the builder")
            if f["name"].endswith("RuntimeCore as std::default::Default>::default") or (
                    f["id"] == "core::default::Default::default" and (f.get("res") or {}).get("name", "").startswith("<runtime::runtime::RuntimeCore")):
                if f2.key not in ("<" + RB + "RuntimeBuilder>::build", "<" + RB + "RuntimeCore>::new"):
                    rep.viol(rule, "RuntimeCore::default called in " + f2.key, P.where(f2, t["line"]), "bare RuntimeCore escapes the builder")
    rep.count(rule + ".core-masked")


RTCALLS_SPEC = {
    # renderable -> exact set of Runtime methods its render_to (and closures) calls itself
    "liquid_lib::stdlib::tags::assign_tag::Assign": {"set_global"},
    "liquid_lib::stdlib::blocks::capture_block::Capture": {"set_global"},
    "liquid_lib::stdlib::tags::increment_tags::Increment": {"get_index", "set_index"},
    "liquid_lib::stdlib::tags::increment_tags::Decrement": {"get_index", "set_index"},
    "liquid_lib::stdlib::tags::interrupt_tags::Break": {"registers"},
    "liquid_lib::stdlib::tags::interrupt_tags::Continue": {"registers"},
    "liquid_lib::stdlib::tags::cycle_tag::Cycle": {"registers"},
    "liquid_lib::stdlib::blocks::ifchanged_block::IfChanged": {"registers"},
    "liquid_lib::stdlib::blocks::for_block::For": {"registers", "try_get"},  # try_get: parentloop lookup
    "liquid_lib::stdlib::blocks::for_block::TableRow": set(),
    "liquid_lib::stdlib::blocks::if_block::Conditional": set(),
    "liquid_lib::stdlib::blocks::case_block::Case": set(),
    "liquid_lib::stdlib::blocks::comment_block::Comment": set(),
    "liquid_lib::stdlib::blocks::raw_block::RawT": set(),
    "liquid_lib::stdlib::tags::include_tag::Include": {"partials"},
    "liquid_lib::stdlib::tags::render_tag::Render": {"partials", "registers"},
    "liquid_core::parser::text::Text": set(),
    "liquid_core::parser::filter_chain::FilterChain": set(),
    "liquid_core::runtime::template::Template": {"registers"},
}


def run_rtcalls(P, rep, only=None, rule="R-RTCALLS"):
    for ty, want in sorted(RTCALLS_SPEC.items()):
        if only and ty not in only:
            continue
        key = "<%s as liquid_core::runtime::renderable::Renderable>::render_to" % ty
        fns = P.by_key(key)
        if len(fns) != 1:
            rep.anchor_missing(rule, key)
            continue
        fn = fns[0]
        pr = Profile(P, fn)
        got = {m for (m, r, st) in pr.trait_calls(RUNTIME)}
        # private free helper functions of the tag's crate that are handed the runtime count as the tag itself
        seen_h, work = set(), [b for b, _ in pr.bodies]
        while work:
            body = work.pop()
            for bi, t in P.calls(body):
                if not t.get("f"):
                    continue
                for tg in P.callee_targets(t, body.crate):
                    g = P.fns.get(tg)
                    if g is None or g.id in seen_h or g.impl or g.kind != "fn" or g.crate != fn.crate:
                        continue
                    if not any("dyn liquid_core::runtime::runtime::Runtime" in P.local_ty(g, i + 1) for i in range(g.argc)):
                        continue
                    seen_h.add(g.id)
                    hb = [g] + [c for c in P.fns.values() if c.kind == "closure" and c.root == g.id]
                    for b2 in hb:
                        for _, t2 in P.calls(b2):
                            f2 = t2.get("f")
                            if f2 and f2.get("trait") == RUNTIME:
                                got.add(f2["id"].rsplit("::", 1)[1])
                    work += hb
        site = ty.rsplit("::", 1)[-1] + "::render_to"
        if got != want:
            rep.viol(rule, site, P.where(fn),
                     "performs Runtime operations %s itself; its contract is exactly %s" % (sorted(got), sorted(want)),
                     {"function": key})
        else:
            rep.ok(rule, site, P.where(fn), "Runtime operations used directly: %s" % sorted(got))


def run_newruntime(P, rep, rule="R-NEWRUNTIME"):
    fn = P.fn_by_key("<liquid::template::Template>::render_to")
    rc = render_calls(P, fn)
    ok = False
    if len(rc) == 1:
        ol = op_local(rc[0][1]["args"][2])
        from origins import backward_slice
        locs, calls = backward_slice(fn, ol[0]) if ol else (set(), [])
        names = [c["f"]["name"] for c in calls if c.get("f")]
        if any(n.endswith("RuntimeBuilder::<'g, 'p>::build") or n.endswith("::build") for n in names) and \
           any(n.endswith("::new") and "RuntimeBuilder" in n for n in names):
            ok = True
    if ok:
        rep.ok(rule, "Template::render_to", P.where(fn), "runtime = RuntimeBuilder::new()..build() inside the call")
    else:
        rep.viol(rule, "Template::render_to", P.where(fn), "the runtime handed to the template is not freshly built inside render_to")
    # Registers are constructed only by RuntimeCore::default and SandboxedStackFrame::new
    allowed = {"<" + RB + "RuntimeCore as core::default::Default>::default",
               "<" + ST + "SandboxedStackFrame<P, O>>::new",
               "<" + RB + "Registers as core::default::Default>::default"}
    n = 0
    for f2 in P.fns.values():
        if f2.crate not in ("liquid", "liquid_core", "liquid_lib"):
            continue
        makes = False
        for b in f2.blocks:
            for st in b["s"]:
                if st[0] == "a" and st[2]["k"] == "agg" and st[2].get("id") == RB + "Registers":
                    makes = True
            t = b["t"]
            if t["k"] == "call" and t.get("f") and not t["d"][1]:
                if P.local_ty(f2, t["d"][0]) == RB + "Registers":
                    makes = True
        if makes:
            n += 1
            # a function that itself assembles the RuntimeCore / SandboxedStackFrame the registers go into is the same construction site
            owner = any(st[0] == "a" and st[2]["k"] == "agg" and st[2].get("id") in (RB + "RuntimeCore", ST + "SandboxedStackFrame")
                        for b in f2.blocks for st in b["s"])
            if f2.key not in allowed and not owner:
                rep.viol(rule, "Registers constructed in " + f2.key, P.where(f2),
                         "per-render plugin state is created outside RuntimeCore::default / SandboxedStackFrame::new")
            else:
                rep.ok(rule, "Registers constructed in " + f2.key, P.where(f2), "ledgered constructor of per-render state")
    # get_mut::<T> instantiations
    seen = set()
    for f2 in P.fns.values():
        if f2.crate not in ("liquid", "liquid_core", "liquid_lib"):
            continue
        for bi, t in P.calls(f2):
            f = t.get("f")
            if f and f["name"].endswith("Registers::get_mut"):
                targs = [P.tstr(f2.crate, a) for a in f["args"] if isinstance(a, int)]
                seen.update(targs)
    want = {RB + "InterruptRegister", "liquid_lib::stdlib::tags::cycle_tag::CycleRegister",
            "liquid_lib::stdlib::blocks::ifchanged_block::ChangedRegister"}
    extra = seen - want
    if extra:
        rep.viol(rule, "register types", "-", "new register types %s are not in the per-render state ledger" % sorted(extra))
    else:
        rep.ok(rule, "register types", "-", "Registers::get_mut instantiated at %s" % sorted(seen))


# ---------------------------------------------------------------------------------------
# R-ARGEVAL: expressions are evaluated against the runtime the function was given

def run_argeval(P, rep, rule="R-ARGEVAL"):
    """Every Expression / Variable / FilterChain (try_)evaluate call in render-time workspace code takes, as its runtime,
    the function's own runtime parameter (or the closure's captured one) — never a scope layer built inside the function.
    Arguments of include/render, loop attributes, conditions, assign values are therefore all read in the caller's scope."""
    n = 0
    bad = 0
    for fn in sorted(P.fns.values(), key=lambda f: f.id):
        if fn.crate not in ("liquid_lib", "liquid_core") or "::test" in fn.id:
            continue
        k = 0
        for bi, t in P.calls(fn):
            f = t.get("f")
            if not f:
                continue
            last = f["id"].rsplit("::", 1)[1]
            nm = f["name"]
            if last not in ("evaluate", "try_evaluate") or not ("Expression" in nm or "Variable" in nm or "FilterChain" in nm):
                continue
            for a in t["args"]:
                ol = op_local(a)
                if not ol or "dyn liquid_core::runtime::runtime::Runtime" not in P.local_ty(fn, ol[0]):
                    continue
                n += 1
                src = unsize_source(P, fn, ol[0])
                if src[0] == "passthrough" and isinstance(src[1], int) and 1 <= src[1] <= fn.argc:
                    continue
                bad += 1
                rep.viol(rule, "%s %s#%d" % (fn.key, last, k), P.where(fn, t["line"]),
                         "`%s` is evaluated against %s instead of the runtime this function was given: the expression is not read in the caller's scope"
                         % (nm.rsplit("::", 2)[-2] + "::" + last, ("a locally built " + str(src[1])) if src[0] in ("unsize", "ref") else src[0]))
                k += 1
    if not bad:
        rep.ok(rule, "evaluate sites", "-", "%d evaluate/try_evaluate calls; each takes the function's own runtime parameter / captured runtime" % n)
    rep.count(rule + ".sites", n)


# ---------------------------------------------------------------------------------------
# R-ARGLOUD: an include/render argument that does not resolve is an error, not a silently missing binding

def run_args_loud(P, rep, rule="R-ARGLOUD"):
    """In the include / render tags every `try_evaluate` of an argument expression is turned into an error
    (`.ok_or_else(..)` / `.ok_or(..)` followed by `?`): an unresolvable argument is never skipped, because a skipped
    argument lets the partial see an outer binding of the same name."""
    from origins import SelfOrigins
    keys = ["<liquid_lib::stdlib::tags::include_tag::Include as liquid_core::runtime::renderable::Renderable>::render_to",
            "<liquid_lib::stdlib::tags::render_tag::Render as liquid_core::runtime::renderable::Renderable>::render_to",
            "<liquid_lib::jekyll::include_tag::Include as liquid_core::runtime::renderable::Renderable>::render_to"]
    for key in keys:
        fns = P.by_key(key)
        if len(fns) != 1:
            rep.anchor_missing(rule, key)
            continue
        root = fns[0]
        k = 0
        for fn, _ in SelfOrigins(P, root, seed={}).all_bodies():
            for bi, t in P.calls(fn):
                f = t.get("f")
                if not f or f["id"].rsplit("::", 1)[1] != "try_evaluate" or "Expression" not in f["name"]:
                    continue
                site = "%s try_evaluate#%d" % (key.split(" as ")[0].lstrip("<").rsplit("::", 2)[-2] + "::" + key.split(" as ")[0].rsplit("::", 1)[-1], k)
                k += 1
                holder = t["d"][0]
                ok = False
                opt = {holder}
                grew = True
                while grew:
                    grew = False
                    for b2, t2 in P.calls(fn):
                        a0 = op_local(t2["args"][0]) if t2.get("args") else None
                        if a0 and a0[0] in opt and t2.get("f") and not t2["d"][1] and t2["d"][0] not in opt \
                                and t2["f"]["id"].rsplit("::", 1)[1] in ("map", "as_ref", "cloned", "copied", "inspect") and "Option" in t2["f"]["name"]:
                            opt.add(t2["d"][0])
                            grew = True
                for b2, t2 in P.calls(fn):
                    a0 = op_local(t2["args"][0]) if t2.get("args") else None
                    if a0 and a0[0] in opt and t2.get("f") and t2["f"]["id"].rsplit("::", 1)[1] in ("ok_or_else", "ok_or"):
                        r2 = t2["d"][0]
                        # the Result reaches a `?` (possibly through error adapters / map)
                        hs = {r2}
                        changed = True
                        while changed:
                            changed = False
                            for b3, t3 in P.calls(fn):
                                a3 = op_local(t3["args"][0]) if t3.get("args") else None
                                if a3 and a3[0] in hs and t3.get("f") and not t3["d"][1] and t3["d"][0] not in hs:
                                    if t3["f"]["id"].endswith("Try::branch"):
                                        ok = True
                                    elif t3["f"]["id"].rsplit("::", 1)[1] in ("map", "map_err", "trace", "trace_with", "context_key", "value_with", "replace", "and_then"):
                                        hs.add(t3["d"][0])
                                        changed = True
                        # or it is what a closure returns (`.map(|..| ..try_evaluate(..).ok_or_else(..)).collect::<Result<..>>()?`)
                        if fn.kind == "closure":
                            for b3, t3 in P.calls(fn):
                                if t3["d"][0] == 0 and not t3["d"][1] and op_local(t3["args"][0]) and op_local(t3["args"][0])[0] in hs:
                                    ok = True
                            if 0 in hs:
                                ok = True
                            for blk in fn.blocks:
                                for st_ in blk["s"]:
                                    if st_[0] == "a" and st_[1][0] == 0 and not st_[1][1] and st_[2]["k"] == "use" and op_local(st_[2]["o"]) and op_local(st_[2]["o"])[0] in hs:
                                        ok = True
                if ok:
                    rep.ok(rule, site, P.where(fn, t["line"]), "try_evaluate(..).ok_or_else(error)? — an unresolvable argument fails the tag")
                else:
                    rep.viol(rule, site, P.where(fn, t["line"]),
                             "the optional result of an argument's try_evaluate is not turned into an error: an argument that does not resolve is skipped, "
                             "and the partial then sees whatever outer binding has that name")


# ---------------------------------------------------------------------------------------
# R-BINDORDER: in `render .. for .. as ..` the per-iteration bindings are written after the key: value arguments

def run_bind_order(P, rep, rule="R-BINDORDER"):
    """Render::render_to fills one map per partial invocation.  The inserts that sit in a loop over `self.vars` are the
    `key: value` arguments; the inserts outside that loop are the per-iteration bindings (`forloop`, the `as` variable).
    A map insert overwrites, so the later writer wins on a name collision: no argument insert may be reachable from a
    per-iteration insert within the lifetime of one map (i.e. without passing through `HashMap::new` again), otherwise a
    `forloop: x` / `<as-name>: x` argument replaces the truthful forloop object / the current element."""
    key = "<liquid_lib::stdlib::tags::render_tag::Render as liquid_core::runtime::renderable::Renderable>::render_to"
    fns = P.by_key(key)
    if len(fns) != 1:
        rep.anchor_missing(rule, key)
        return
    fn = fns[0]
    s = P.succ(fn)
    news, ins = set(), []
    for bi, t in P.calls(fn):
        f = t.get("f")
        if not f or "HashMap" not in f["name"]:
            continue
        last = f["id"].rsplit("::", 1)[1]
        if last in ("new", "with_capacity", "default", "clear"):
            news.add(bi)
        elif last == "insert":
            ins.append((bi, t))
    if not news or not ins:
        rep.anchor_missing(rule, key + " (no HashMap::new / insert: the argument map is built differently; re-derive)")
        return
    looped = [(bi, t) for bi, t in ins if bi in P.reach(fn, s[bi], stop=news)]
    single = [(bi, t) for bi, t in ins if (bi, t) not in looped]
    rep.count(rule + ".arg_inserts", len(looped))
    rep.count(rule + ".binding_inserts", len(single))
    bad = 0
    for k, (bi, t) in enumerate(single):
        after = P.reach(fn, s[bi], stop=news)
        late = [b for b, _ in looped if b in after]
        if late:
            bad += 1
            rep.viol(rule, "Render::render_to binding-insert#%d" % k, P.where(fn, t["line"]),
                     "a per-iteration binding (forloop / the `as` variable) is inserted before the loop that inserts the key: value "
                     "arguments into the same map: an argument of the same name now overwrites the forloop object / the current element")
    if not bad:
        rep.ok(rule, "Render::render_to", P.where(fn), "%d argument inserts (in the loop over self.vars), %d per-iteration inserts; no argument insert follows a per-iteration insert into the same map"
               % (len(looped), len(single)))
