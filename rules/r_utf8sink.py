"""R-UTF8SINK: workspace code hands only `str`-derived bytes to an io::Write sink, and the
`unsafe` census of the library crates is what the ledger says (the unchecked UTF-8
conversion in src/template.rs is justified by exactly this rule)."""
from facts import LIB_CRATES
from r_wprop import op_local, IO_WRITE

ALLOWED_UNSAFE_FNS = {
    # fn key -> reason
    "liquid::template::convert_buffer": "release twin of String::from_utf8(..).expect(..); justified by R-UTF8SINK",
}


def single_def_call(P, fn, local):
    """The unique call that defines `local` (following plain moves/refs/derefs), or None."""
    seen = set()
    cur = local
    for _ in range(12):
        if cur in seen:
            return None
        seen.add(cur)
        defs = []
        for b in fn.blocks:
            for st in b["s"]:
                if st[0] == "a" and st[1][0] == cur and not st[1][1]:
                    defs.append(("a", st[2]))
            t = b["t"]
            if t["k"] == "call" and t["d"][0] == cur and not t["d"][1]:
                defs.append(("c", t))
        if len(defs) != 1:
            return None
        kind, d = defs[0]
        if kind == "c":
            return d
        if d["k"] == "use":
            ol = op_local(d["o"])
            if not ol:
                return None
            cur = ol[0]
        elif d["k"] == "ref":
            cur = d["p"][0]
        elif d["k"] == "cast":
            ol = op_local(d["o"])
            if not ol:
                return None
            cur = ol[0]
        else:
            return None
    return None


def run(P, rep):
    n = 0
    for fn in sorted(P.fns.values(), key=lambda f: f.id):
        if fn.crate not in LIB_CRATES:
            continue
        ordn = 0
        for bi, t in P.calls(fn):
            f = t.get("f")
            if not f or f.get("trait") != IO_WRITE:
                continue
            m = f["id"].rsplit("::", 1)[1]
            site = "%s io::Write::%s#%d" % (fn.key, m, ordn)
            ordn += 1
            where = P.where(fn, t["line"])
            n += 1
            if m in ("write_fmt", "flush"):
                rep.ok("R-UTF8SINK", site, where, "write_fmt: bytes come from fmt::Arguments, i.e. from str pieces and Display impls")
                continue
            if m in ("write", "write_vectored"):
                rep.viol("R-UTF8SINK", site, where,
                         "a bare io::Write::%s may accept a short count; unless the count is looped on, the rest of the "
                         "text is silently lost on a sink that takes fewer bytes (use write_all / write!)" % m)
                continue
            if m in ("write_all", "write_all_vectored") and len(t["args"]) >= 2:
                ol = op_local(t["args"][1])
                dc = single_def_call(P, fn, ol[0]) if ol else None
                nm = dc["f"]["name"] if dc and dc.get("f") else ""
                if nm.endswith("::as_bytes") and ("str" in nm or "String" in nm or "KString" in nm):
                    rep.ok("R-UTF8SINK", site, where, "buffer is %s of a string" % nm)
                    continue
                rep.viol("R-UTF8SINK", site, where,
                         "raw byte write `%s` to the sink whose buffer is not provably str::as_bytes(); "
                         "render() converts the sink's bytes to String without validation in release builds" % m)
                continue
            rep.viol("R-UTF8SINK", site, where, "unrecognised io::Write method `%s` on the sink" % m)
    rep.analysed["R-UTF8SINK.io_write_calls"] = n


def run_unsafe(P, rep):
    """User-written unsafe blocks / unsafe fns / unsafe impls in the library crates."""
    for u in P.unsafe_blocks:
        if u["crate"] not in LIB_CRATES or u["expn"]:
            continue
        fn = P.fns.get(u["fn"])
        key = fn.key if fn else u["fn"]
        where = "%s:%s" % (u["file"], u["line"])
        if key in ALLOWED_UNSAFE_FNS:
            rep.ok("R-UNSAFE", key, where, ALLOWED_UNSAFE_FNS[key])
        else:
            rep.viol("R-UNSAFE", "unsafe-block " + key, where,
                     "user-written unsafe block outside the ledgered set (memory/aliasing rules can no longer be argued from types)")
    for fn in P.fns.values():
        if fn.crate in LIB_CRATES and fn.raw.get("unsafe_fn") and not fn.expn:
            rep.viol("R-UNSAFE", "unsafe-fn " + fn.key, P.where(fn), "user-written unsafe fn in a library crate")
    for im in P.impls:
        if im["crate"] in LIB_CRATES and im.get("unsafe_impl") and not im["expn"]:
            rep.viol("R-UNSAFE", "unsafe-impl %s for %s" % (im.get("trait"), P.impl_self_str(im)),
                     "%s:%s" % (im["file"], im["line"]),
                     "hand-written unsafe impl (e.g. Send/Sync asserted instead of derived from the fields)")
    rep.count("R-UNSAFE.census", 1)
