"""R-ARITH / R-DIV: unchecked arithmetic on template-controlled integers."""
from facts import LIB_CRATES
from mirutil import op_local
from taint import Taint

INT_TYPES = ("i64", "i32", "isize", "usize", "u64", "u32", "i16", "i8", "u8", "u16", "i128", "u128")
_taint_cache = {}


def is_int(ty):
    return ty in INT_TYPES


def build(P):
    if id(P) in _taint_cache:
        return _taint_cache[id(P)]

    def source_call(fn, t):
        f = t["f"]
        nm = f["name"]
        last = f["id"].rsplit("::", 1)[1]
        if last == "to_integer" and "ScalarCow" in nm:
            return {"user-int"}
        if last == "parse" and nm.startswith("core::str::") or nm.endswith("str::parse"):
            targs = [P.tstr(fn.crate, a) for a in f["args"] if isinstance(a, int)]
            if any(is_int(x) for x in targs):
                return {"user-int"}
        if last == "from_str" and "self_ty" in f and is_int(P.tstr(fn.crate, f["self_ty"])):
            return {"user-int"}
        return set()

    def source_field(fn, place):
        base = place[0]
        ty = P.local_ty(fn, base)
        core = ty.lstrip("&").replace("mut ", "")
        seg = core.split("<")[0].rsplit("::", 1)[-1]
        if seg.startswith("Evaluated") and any(p[0] == "f" for p in place[1]):
            return {"user-int"}
        return set()

    def sanitize(fn, t):
        f = t["f"]
        last = f["id"].rsplit("::", 1)[1]
        nm = f["name"]
        # clamped against a collection length / constant: bounded
        if last == "clamp" and (nm.startswith("std::cmp::") or nm.startswith("core::cmp::")):
            return True
        if last == "min" and (nm.startswith("std::cmp::") or nm.startswith("core::cmp::")):
            # `min` bounds from above only: enough for unsigned values, not for signed ones (a very negative value survives)
            ty = P.local_ty(fn, t["d"][0]) if not t["d"][1] else ""
            return ty in ("usize", "u64", "u32", "u16", "u8", "u128")
        if last in ("len", "size", "count", "chars", "is_some", "is_none", "is_ok", "is_err", "is_empty", "to_string", "render",
                    "to_kstr", "source", "type_name", "cmp", "partial_cmp", "eq", "ne", "contains_key", "get"):
            return True
        return False

    tn = Taint(P, LIB_CRATES, source_call, source_field, sanitize)
    _taint_cache[id(P)] = tn
    return tn


def arithmetic_sites(P, fn):
    """(kind, block, terminator-or-stmt, operands, line)"""
    out = []
    for bi, b in enumerate(fn.blocks):
        t = b["t"]
        if t["k"] == "assert" and t["msg"] in ("DivisionByZero", "RemainderByZero"):
            # the assert message carries the dividend; the divisor is the operand compared with 0 in the condition
            div = None
            cl = op_local(t["o"])
            for st in b["s"]:
                if st[0] == "a" and cl and st[1][0] == cl[0] and st[2]["k"] == "bin" and st[2]["op"] == "Eq":
                    div = st[2]["a"]
            out.append((t["msg"], bi, t, [div] if div is not None else t["ops"], t["line"]))
        elif t["k"] == "assert" and t["msg"].startswith("Overflow"):
            out.append((t["msg"], bi, t, t["ops"], t["line"]))
        elif t["k"] == "call" and t.get("f"):
            f = t["f"]
            last = f["id"].rsplit("::", 1)[1]
            if last in ("abs", "pow") and f["name"].startswith("core::num::") and "wrapping" not in last:
                out.append(("call:" + last, bi, t, t["args"], t["line"]))
            elif last in ("wrapping_rem", "wrapping_div", "rem_euclid", "div_euclid", "wrapping_rem_euclid", "wrapping_div_euclid",
                          "overflowing_rem", "overflowing_div", "div_ceil", "div_floor", "next_multiple_of") and f["name"].startswith("core::num::"):
                out.append(("RemainderByZero" if "rem" in last else "DivisionByZero", bi, t, [t["args"][1]], t["line"]))
    return out


PURE_ACCESSORS = ("len", "size", "count", "capacity")


def value_id(fn, local, depth=10):
    """Canonical identity of the value in a local: follows copies and numeric casts; two calls of
    the same pure accessor on the same receiver count as the same value."""
    from mirutil import defs_of
    cur = local
    for _ in range(depth):
        ds = defs_of(fn, cur)
        if len(ds) != 1:
            return ("local", cur)
        kind, bi, si, d = ds[0]
        if kind == "a":
            if d["k"] in ("use", "cast"):
                ol = op_local(d["o"])
                if ol and not ol[1]:
                    cur = ol[0]
                    continue
                if ol and all(p[0] == "d" for p in ol[1]):
                    cur = ol[0]
                    continue
            if d["k"] == "ref" and all(p[0] == "d" for p in d["p"][1]):
                cur = d["p"][0]
                continue
            if d["k"] == "un" and d["op"] == "PtrMetadata":
                ol = op_local(d["a"])
                if ol:
                    return ("call", "len", value_id(fn, ol[0], depth - 1))
            return ("local", cur)
        f = d.get("f")
        if f and f["id"].rsplit("::", 1)[1] in PURE_ACCESSORS and d["args"]:
            ol = op_local(d["args"][0])
            if ol:
                return ("call", f["id"].rsplit("::", 1)[1], value_id(fn, ol[0], depth - 1))
        if f and f["id"].rsplit("::", 1)[1] in ("deref", "as_str", "as_ref", "borrow") and d["args"]:
            ol = op_local(d["args"][0])
            if ol:
                cur = ol[0]
                continue
        return ("local", cur)
    return ("local", cur)


def dominating_compare(P, fn, bi, ops):
    """Is the site dominated by a branch on a comparison of the same two operands (after copies)?"""
    copy_root = value_id
    roots = []
    for o in ops:
        ol = op_local(o)
        roots.append(copy_root(fn, ol[0]) if ol else None)
    if len(roots) == 2 and roots[0] is None and roots[1] is not None and ops[0][0] == "k":
        # `c - x` under a dominating `x <= c` / `x < c'` test against a constant
        c = ops[0][1].get("val")
        for ci, b in enumerate(fn.blocks):
            if ci == bi or not P.dominates(fn, ci, bi):
                continue
            t = b["t"]
            if t["k"] != "switch":
                continue
            sl = op_local(t["o"])
            for st in b["s"]:
                if st[0] == "a" and sl and st[1][0] == sl[0] and st[2]["k"] == "bin" and st[2]["op"] in ("Le", "Lt", "Ge", "Gt"):
                    a, d = st[2]["a"], st[2]["b"]
                    la, ld = op_local(a), op_local(d)
                    if la and d[0] == "k" and copy_root(fn, la[0]) == roots[1] and st[2]["op"] in ("Le", "Lt") and d[1].get("val") is not None \
                            and c is not None and d[1]["val"] <= c:
                        fb = [tb for v, tb in t["t"] if v == 0]
                        if fb and bi not in P.reach(fn, fb, stop={ci}):
                            return "x %s %s at line %d" % (st[2]["op"], d[1]["val"], st[3])
        return None
    if len(roots) < 2 or roots[0] is None or roots[1] is None:
        return None
    for ci, b in enumerate(fn.blocks):
        if ci == bi or not P.dominates(fn, ci, bi):
            continue
        t = b["t"]
        if t["k"] != "switch":
            continue
        ol = op_local(t["o"])
        if not ol:
            continue
        for st in b["s"]:
            if st[0] == "a" and st[1][0] == ol[0] and st[2]["k"] == "bin" and st[2]["op"] in ("Ge", "Gt", "Le", "Lt"):
                a, c = op_local(st[2]["a"]), op_local(st[2]["b"])
                if a and c:
                    ra, rc = copy_root(fn, a[0]), copy_root(fn, c[0])
                    if {ra, rc} == {roots[0], roots[1]}:
                        return "%s at line %d" % (st[2]["op"], st[3])
    return None


def sat_guard(P, fn, bi, ops):
    """`c - a` on the true edge of `a.saturating_add(b) > c` (b a signed value): then c - a < b <= MAX, and with a <= c
    established elsewhere the difference cannot overflow. Machine-checked shape: the site is dominated by that comparison's
    true edge and not reachable from its false edge."""
    if len(ops) != 2:
        return None
    lc, la = op_local(ops[0]), op_local(ops[1])
    if not lc or not la:
        return None
    vc, va = value_id(fn, lc[0]), value_id(fn, la[0])
    sat = {}
    for b2, t2 in P.calls(fn):
        f2 = t2.get("f")
        if f2 and f2["id"].rsplit("::", 1)[1] == "saturating_add" and t2["args"] and not t2["d"][1]:
            a0 = op_local(t2["args"][0])
            if a0 and value_id(fn, a0[0]) == va:
                sat[t2["d"][0]] = b2
    if not sat:
        return None
    from mirutil import copy_root
    # the comparison may be evaluated into a named boolean first (`let runs_past_end = a.saturating_add(b) > c;`)
    cmp_locals = {}
    for b in fn.blocks:
        for st in b["s"]:
            if st[0] == "a" and not st[1][1] and st[2]["k"] == "bin" and st[2]["op"] in ("Gt", "Lt"):
                x, y = op_local(st[2]["a"]), op_local(st[2]["b"])
                if not x or not y:
                    continue
                big, small = (x, y) if st[2]["op"] == "Gt" else (y, x)
                if copy_root(fn, big[0]) in sat and value_id(fn, small[0]) == vc:
                    cmp_locals[st[1][0]] = st[3]
    if not cmp_locals:
        return None
    for ci, b in enumerate(fn.blocks):
        if ci == bi or not P.dominates(fn, ci, bi):
            continue
        t = b["t"]
        if t["k"] != "switch":
            continue
        sl = op_local(t["o"])
        if not sl or sl[1]:
            continue
        src = sl[0] if sl[0] in cmp_locals else copy_root(fn, sl[0])
        if src in cmp_locals:
            fb = [tb for v, tb in t["t"] if v == 0]
            if fb and bi not in P.reach(fn, fb, stop={ci}):
                return "`a.saturating_add(b) > c` dominates `c - a` (line %d)" % cmp_locals[src]
    return None


def opposite_signs(P, fn, bi, ops):
    """`x + y` where a dominating test established x < 0 and y is a collection length cast to a signed type (>= 0)."""
    if len(ops) != 2:
        return None
    from mirutil import defs_of
    for i in (0, 1):
        lx, ly = op_local(ops[i]), op_local(ops[1 - i])
        if not lx or not ly:
            continue
        vx = value_id(fn, lx[0])
        # y: result of an IntToInt cast from an unsigned type
        cur = ly[0]
        nonneg = False
        for _ in range(5):
            ds = defs_of(fn, cur)
            if len(ds) != 1 or ds[0][0] != "a":
                break
            rv = ds[0][3]
            if rv["k"] == "cast" and rv["ck"] == "IntToInt" and P.tstr(fn.crate, rv["from"]) in ("usize", "u64", "u32", "u16", "u8"):
                nonneg = True
                break
            if rv["k"] == "use" and op_local(rv["o"]):
                cur = op_local(rv["o"])[0]
                continue
            break
        if not nonneg:
            continue
        for ci, b in enumerate(fn.blocks):
            if ci == bi or not P.dominates(fn, ci, bi):
                continue
            t = b["t"]
            if t["k"] != "switch":
                continue
            sl = op_local(t["o"])
            for st in b["s"]:
                if st[0] == "a" and sl and st[1][0] == sl[0] and st[2]["k"] == "bin" and st[2]["op"] == "Lt":
                    a0 = op_local(st[2]["a"])
                    if a0 and value_id(fn, a0[0]) == vx and st[2]["b"][0] == "k" and isinstance(st[2]["b"][1], dict) and st[2]["b"][1].get("val") == 0:
                        fb = [tb for v, tb in t["t"] if v == 0]
                        if fb and bi not in P.reach(fn, fb, stop={ci}):
                            return "negative value (dominating `x < 0`, line %d) plus a length cast from an unsigned type: opposite signs never overflow" % st[3]
    return None


def zero_guard(P, fn, bi, divisor_op):
    """Divisor proven non-zero: a constant != 0, or a dominating test `d == 0` / switch on d whose
    zero edge does not reach the site."""
    if divisor_op[0] == "k":
        v = divisor_op[1].get("val")
        return "constant divisor %s" % v if v not in (0, None) else None
    from mirutil import copy_root, defs_of
    ol = op_local(divisor_op)
    if not ol:
        return None
    root = copy_root(fn, ol[0])
    # constant via copy
    ds = defs_of(fn, root)
    if len(ds) == 1 and ds[0][0] == "a" and ds[0][3]["k"] == "use" and ds[0][3]["o"][0] == "k":
        v = ds[0][3]["o"][1].get("val")
        if v not in (0, None):
            return "constant divisor %s" % v
    if len(ds) == 1 and ds[0][0] == "c":
        f = ds[0][3].get("f")
        if f and f["id"].rsplit("::", 1)[1] == "pow":
            return "power of a non-zero constant"
        if f and f["id"].rsplit("::", 1)[1] == "max":
            return "max(_, k)"
    for ci, b in enumerate(fn.blocks):
        if ci == bi or not P.dominates(fn, ci, bi):
            continue
        t = b["t"]
        if t["k"] != "switch":
            continue
        sl = op_local(t["o"])
        if not sl:
            continue
        # switch directly on the divisor
        if copy_root(fn, sl[0]) == root:
            zero = [tb for v, tb in t["t"] if v == 0]
            if zero and bi not in P.reach(fn, zero, stop={ci}):
                return "switch on the divisor: zero edge does not reach the division"
        for st in b["s"]:
            if st[0] == "a" and st[1][0] == sl[0] and st[2]["k"] == "bin" and st[2]["op"] in ("Eq", "Ne"):
                a, c = st[2]["a"], st[2]["b"]
                la, lc = op_local(a), op_local(c)
                isz = lambda o: o[0] == "k" and o[1].get("val") == 0  # noqa: E731
                tested = None
                if la and isz(c):
                    tested = copy_root(fn, la[0])
                elif lc and isz(a):
                    tested = copy_root(fn, lc[0])
                if tested == root:
                    # Eq: true edge (else) is the zero case; Ne: false edge (0) is the zero case
                    if st[2]["op"] == "Eq":
                        zedge = [t["else"]]
                    else:
                        zedge = [tb for v, tb in t["t"] if v == 0]
                    if zedge and bi not in P.reach(fn, zedge, stop={ci}):
                        return "dominating `== 0` test whose zero edge does not reach the division"
    return None


def loop_nonempty_guard(P, fn, bi, divisor_op):
    """The division sits in the body of a loop that pulls from a vector X, and before the loop
    `if X.len() != 0 && d == 0 { leave }` (in any of its spellings) runs: inside the body X is non-empty, so the zero test
    was taken. Machine-checked shape: (1) a natural loop containing the site pulls from an iterator built from a Vec local;
    (2) a switch S on the emptiness of that Vec dominates the loop header; (3) on S's non-empty edge every path to the header
    passes a switch on `d == 0` whose zero edge never reaches the header."""
    import r_term
    from origins import backward_slice
    from mirutil import copy_root
    ol = op_local(divisor_op)
    if not ol:
        return None
    vd = value_id(fn, ol[0])
    for h, body in r_term.natural_loops(P, fn):
        if bi not in body:
            continue
        vecs = set()
        for b in body:
            t = fn.blocks[b]["t"]
            if t["k"] == "call" and t.get("f") and t["f"]["id"].endswith("Iterator::next") and t["args"]:
                a0 = op_local(t["args"][0])
                if a0:
                    locs, _ = backward_slice(fn, a0[0])
                    vecs |= {l for l in locs if P.local_ty(fn, l).startswith("alloc::vec::Vec<")}
        if not vecs:
            continue
        # emptiness tests on one of those vectors
        meaning = {}
        for b2, t2 in P.calls(fn):
            f2 = t2.get("f")
            if f2 and f2["name"].endswith(("Vec::<T, A>::len", "Vec::<T, A>::is_empty")) and t2["args"] and not t2["d"][1]:
                a0 = op_local(t2["args"][0])
                srcs = backward_slice(fn, a0[0])[0] | {a0[0]} if a0 else set()
                if srcs & vecs:
                    meaning[t2["d"][0]] = "len" if f2["name"].endswith("len") else "empty"
        for b in fn.blocks:
            for st in b["s"]:
                if st[0] == "a" and not st[1][1] and st[2]["k"] == "bin" and st[2]["op"] in ("Eq", "Ne", "Gt") \
                        and st[2]["b"][0] == "k" and isinstance(st[2]["b"][1], dict) and st[2]["b"][1].get("val") == 0:
                    la = op_local(st[2]["a"])
                    if la and meaning.get(copy_root(fn, la[0])) == "len":
                        meaning[st[1][0]] = "empty" if st[2]["op"] == "Eq" else "nonempty"
        for si, sb in enumerate(fn.blocks):
            tt = sb["t"]
            if tt["k"] != "switch" or not P.dominates(fn, si, h):
                continue
            so = op_local(tt["o"])
            m = meaning.get(so[0]) or meaning.get(copy_root(fn, so[0])) if so else None
            if not m:
                continue
            zero = [tb for v, tb in tt["t"] if v == 0]
            other = [tt["else"]] + [tb for v, tb in tt["t"] if v != 0]
            nonempty_edge = other if m in ("len", "nonempty") else zero
            # zero tests of the divisor
            tests = []
            for zi, zb in enumerate(fn.blocks):
                zt = zb["t"]
                if zt["k"] != "switch":
                    continue
                zo = op_local(zt["o"])
                for st in zb["s"]:
                    if st[0] == "a" and zo and st[1][0] == zo[0] and st[2]["k"] == "bin" and st[2]["op"] in ("Eq", "Ne"):
                        la = op_local(st[2]["a"])
                        if la and value_id(fn, la[0]) == vd and st[2]["b"][0] == "k" and isinstance(st[2]["b"][1], dict) and st[2]["b"][1].get("val") == 0:
                            zedge = [zt["else"]] if st[2]["op"] == "Eq" else [tb for v, tb in zt["t"] if v == 0]
                            tests.append((zi, zedge))
            if not tests:
                continue
            if h in P.reach(fn, nonempty_edge, stop={z for z, _ in tests}):
                continue
            if any(h in P.reach(fn, ze) for _, ze in tests):
                continue
            return ("the loop pulls from a vector whose emptiness is tested before it; on the non-empty edge the divisor's zero test "
                    "leaves before the loop (an empty vector never reaches the division)")
    return None


def load_ledger():
    import os
    from facts import VERIF
    led = {}
    p = os.path.join(VERIF, "ledger", "arith.tsv")
    if os.path.exists(p):
        for ln in open(p):
            ln = ln.rstrip("\n")
            if ln and not ln.startswith("#"):
                parts = ln.split("\t")
                if len(parts) >= 3:
                    led[parts[0]] = (parts[1], parts[2])
    return led


def run(P, rep, scope=None, rule="R-ARITH", reach=None):
    """scope: predicate on Fn selecting bodies; reach: set of fn ids to restrict to."""
    tn = build(P)
    ledger = load_ledger()
    n_sites = n_tainted = 0
    for fn in sorted(P.fns.values(), key=lambda f: f.id):
        if fn.crate not in LIB_CRATES:
            continue
        if reach is not None and fn.id not in reach:
            continue
        if scope and not scope(fn):
            continue
        ordn = {}
        for kind, bi, t, ops, line in arithmetic_sites(P, fn):
            n_sites += 1
            o = ordn.get(kind, 0)
            ordn[kind] = o + 1
            tainted = False
            for op in ops:
                if tn.tags_of_operand(fn.id, op):
                    tainted = True
            site = "%s %s#%d" % (fn.key, kind, o)
            where = P.where(fn, line)
            if kind in ("DivisionByZero", "RemainderByZero"):
                g = zero_guard(P, fn, bi, ops[0]) or closure_param_zero_guard(P, fn, ops[0]) or loop_nonempty_guard(P, fn, bi, ops[0])
                if g:
                    rep.ok("R-DIV", site, where, g)
                elif tainted:
                    rep.viol("R-DIV", site, where, "division/remainder by a template-controlled value with no dominating zero test")
                else:
                    # closure idiom: divisor is a closure parameter guarded in the parent
                    g2 = closure_param_zero_guard(P, fn, ops[0])
                    if g2:
                        rep.ok("R-DIV", site, where, g2)
                    else:
                        rep.viol("R-DIV", site, where, "division/remainder by a non-constant value with no dominating zero test")
                continue
            if not tainted:
                rep.count(rule + ".untainted")
                continue
            n_tainted += 1
            g = None
            if kind == "Overflow(Sub)":
                g = dominating_compare(P, fn, bi, ops) or sat_guard(P, fn, bi, ops)
            elif kind == "Overflow(Add)":
                g = opposite_signs(P, fn, bi, ops)
            if g:
                rep.ok(rule, site, where, "discharged by a dominating guard (%s)" % g)
            elif site in ledger:
                rep.ok(rule, site, where, "ledger %s: %s" % ledger[site])
                rep.trusted.add("ledger/arith.tsv: " + site)
            else:
                rep.viol(rule, site, where,
                         "unchecked `%s` on a template-controlled integer: panics in debug builds and wraps in release (use checked_/saturating_ arithmetic or an error)" % kind,
                         {"function": fn.key})
    rep.analysed[rule + ".arith_sites"] = rep.analysed.get(rule + ".arith_sites", 0) + n_sites
    rep.analysed[rule + ".tainted"] = rep.analysed.get(rule + ".tainted", 0) + n_tainted


def closure_param_zero_guard(P, fn, divisor_op):
    """`X.to_integer().map(|o| a / o)` guarded by `if let Some(o) = X.to_integer() { if o == 0 { return Err } }`
    in the enclosing function (X may be captured through several closure levels)."""
    if fn.kind != "closure":
        return None
    ol = op_local(divisor_op)
    if not ol:
        return None
    if value_id(fn, ol[0]) != ("local", 2):
        return None
    parent = P.fns.get(fn.parent)
    root = P.fns.get(fn.root)
    if parent is None or root is None:
        return None
    for bi, t in P.calls(parent):
        for a in t["args"][1:]:
            al = op_local(a)
            if not (al and P.local_tyj(parent, al[0]).get("id") == fn.id):
                continue
            recv = op_local(t["args"][0])
            if not recv:
                return None
            rdef = [x for x in P.calls(parent) if x[1]["d"][0] == recv[0]]
            if not rdef:
                return None
            acc = rdef[0][1]
            if not acc.get("f") or not acc["args"]:
                return None
            accname = acc["f"]["id"]
            arg0 = op_local(acc["args"][0])
            if not arg0:
                return None
            vname = source_var_name(parent, arg0[0])
            if vname is None:
                return None
            # in the root function: same accessor on the variable of that name, payload tested against zero
            import inline
            views = [root]
            hs = inline.helpers_of(P, [root], depth=1)
            if hs:
                rv2, n2 = inline.inlined(P, root, frozenset(hs))
                if n2:
                    views.append(rv2)
            for view in views:
                why = _payload_zero_exit(P, view, fn, accname, vname)
                if why:
                    return why + ("" if view is root else " (seen with the private helper(s) %s expanded in place)" % sorted(h.rsplit("::", 1)[-1] for h in hs))
    return None


def _payload_zero_exit(P, root, fn, accname, vname):
    from origins import backward_slice
    from kreach import kreach
    create_blocks = [ci for ci, blk in enumerate(root.blocks) for st in blk["s"]
                     if st[0] == "a" and st[2]["k"] == "agg" and st[2].get("ak") == "closure"
                     and (fn.id.startswith(st[2]["id"]))]
    if not create_blocks:
        return None
    cb = create_blocks[0]
    for b2, t2 in P.calls(root):
        if not t2.get("f") or t2["f"]["id"] != accname or not t2["args"]:
            continue
        a2 = op_local(t2["args"][0])
        if not a2 or vname not in source_var_names(root, a2[0]):
            continue
        d2 = t2["d"][0]
        for xi, blk in enumerate(root.blocks):
            for st in blk["s"]:
                if not (st[0] == "a" and not st[1][1] and st[2]["k"] == "bin" and st[2]["op"] in ("Eq", "Ne")):
                    continue
                la = op_local(st[2]["a"])
                if not (la and st[2]["b"][0] == "k" and isinstance(st[2]["b"][1], dict) and st[2]["b"][1].get("val") == 0):
                    continue
                locs, _ = backward_slice(root, la[0])
                if d2 not in locs:
                    continue
                # locals that hold this comparison's result (forward copies)
                holds = {st[1][0]}
                changed = True
                while changed:
                    changed = False
                    for b3 in root.blocks:
                        for s3 in b3["s"]:
                            if s3[0] == "a" and not s3[1][1] and s3[2]["k"] == "use" and s3[1][0] not in holds:
                                o3 = op_local(s3[2]["o"])
                                if o3 and o3[0] in holds and not o3[1]:
                                    holds.add(s3[1][0])
                                    changed = True
                region = P.reach(root, [xi])
                tests = [wi for wi in region if root.blocks[wi]["t"]["k"] == "switch" and op_local(root.blocks[wi]["t"]["o"])
                         and op_local(root.blocks[wi]["t"]["o"])[0] in holds]
                if not tests:
                    continue
                # the closure cannot be built after this comparison without passing one of the tests ...
                succ0 = [xi] if xi in tests else None
                before = P.reach(root, [xi], stop=set(tests)) if xi not in tests else {xi}
                if cb in before and xi not in tests:
                    continue
                ok = True
                for wi in tests:
                    tt = root.blocks[wi]["t"]
                    zedge = [tt["else"]] if st[2]["op"] == "Eq" else [tb for v, tb in tt["t"] if v == 0]
                    if not zedge or (cb in P.reach(root, zedge) and cb in kreach(P, root, zedge)):
                        ok = False
                if ok:
                    return ("closure divisor = payload of %s(%s); the enclosing function tests the same accessor's payload "
                            "against 0 and leaves on the zero edge before the closure is built" % (accname.rsplit("::", 1)[1], vname))
    return None


def source_var_names(fn, local, depth=12):
    """Debug names of every source variable on the copy/reference chain of a local (a helper's parameter
    and the caller's variable it was passed are both on the chain in an inlined view)."""
    from mirutil import defs_of
    out = set()
    cur = local
    for _ in range(depth):
        for nm, pl in fn.names:
            if pl[0] == cur and not pl[1]:
                out.add(nm)
        ds = defs_of(fn, cur)
        if len(ds) != 1 or ds[0][0] != "a":
            break
        d = ds[0][3]
        pl = None
        if d["k"] in ("use", "cast"):
            ol = op_local(d["o"])
            pl = [ol[0], ol[1]] if ol else None
        elif d["k"] == "ref":
            pl = d["p"]
        if pl is None:
            break
        if pl[0] == 1 and fn.kind == "closure":
            fs = [p[1] for p in pl[1] if p[0] == "f"]
            for nm, npl in fn.names:
                if npl[0] == 1 and [p[1] for p in npl[1] if p[0] == "f"][:1] == fs[:1]:
                    out.add(nm)
            break
        cur = pl[0]
    return out


def source_var_name(fn, local, depth=10):
    """Debug name of the source variable a local is a copy/reference of (upvars included)."""
    from mirutil import defs_of
    cur = local
    for _ in range(depth):
        for nm, pl in fn.names:
            if pl[0] == cur and not pl[1]:
                return nm
        ds = defs_of(fn, cur)
        if len(ds) != 1 or ds[0][0] != "a":
            return None
        d = ds[0][3]
        pl = None
        if d["k"] in ("use", "cast"):
            ol = op_local(d["o"])
            pl = [ol[0], ol[1]] if ol else None
        elif d["k"] == "ref":
            pl = d["p"]
        if pl is None:
            return None
        if pl[0] == 1 and fn.kind == "closure":
            fs = [p[1] for p in pl[1] if p[0] == "f"]
            for nm, npl in fn.names:
                if npl[0] == 1 and [p[1] for p in npl[1] if p[0] == "f"][:1] == fs[:1]:
                    return nm
            return None
        cur = pl[0]
    return None


def same_place(fn, a, b):
    from mirutil import copy_root
    return copy_root(fn, a[0]) == copy_root(fn, b[0]) and [p[0:2] for p in a[1]] == [p[0:2] for p in b[1]]
