"""R-VERBATIM: shapes that make text pass through unmodified.

 * buffered render == streamed render: `Template::render` / `Renderable::render` create a
   fresh Vec<u8>, hand it to exactly one `render_to`, and convert that same Vec to String with
   from_utf8 / convert_buffer; nothing else touches the buffer.
 * Text / RawT print exactly one field of self with one sink write and call nothing else.
 * Comment::render_to calls nothing.
 * Capture::render_to never touches its writer and renders its body into a private Vec.
"""
from mirutil import op_local, alias_closure, calls_using, all_operands
from r_wprop import IO_WRITE, RENDERABLE, BRANCH, FROM_RESIDUAL, is_adapter

PLUMBING_PREFIX = (
    "core::fmt::rt::", "core::fmt::{impl#4}::new", "core::fmt::Arguments", "std::fmt::Arguments",
)


def _is_plumbing(t):
    f = t.get("f")
    if not f:
        return False
    if f["id"] in (BRANCH, FROM_RESIDUAL):
        return True
    if f["id"].startswith("core::fmt::rt::") or f["name"].startswith("std::fmt::Arguments") or f["name"].startswith("core::fmt::rt::"):
        return True
    if is_adapter(f):
        return True
    return False


def buffered_render(P, rep, keys=("<liquid::template::Template>::render",
                                  "liquid_core::runtime::renderable::Renderable::render")):
    for key in keys:
        fn = P.fn_by_key(key)
        where = P.where(fn)
        # the buffer: the unique local of type Vec<u8> that is the destination of a Vec constructor
        bufs = []
        for bi, t in P.calls(fn):
            d = t["d"]
            if not d[1] and P.local_ty(fn, d[0]) == "alloc::vec::Vec<u8>":
                nm = t["f"]["name"] if t.get("f") else ""
                if nm.endswith("::new") or nm.endswith("::with_capacity"):
                    bufs.append(d[0])
        if len(bufs) != 1:
            rep.viol("R-VERBATIM.buffered", key, where, "expected exactly one fresh Vec<u8> buffer, found %d" % len(bufs))
            continue
        al = alias_closure(fn, bufs)
        uses = calls_using(fn, al)
        kinds = []
        bad = []
        for bi, t, pos in uses:
            f = t.get("f")
            did = f["id"] if f else "?"
            nm = f["name"] if f else "?"
            if did == RENDERABLE + "::render_to" or nm.endswith("Template::render_to") or did.endswith("::render_to"):
                kinds.append("render_to")
            elif "from_utf8" in nm or nm.endswith("convert_buffer"):
                kinds.append("convert")
            else:
                bad.append((nm, t["line"]))
        if bad:
            for nm, line in bad:
                rep.viol("R-VERBATIM.buffered", "%s buffer-use %s" % (key, nm), P.where(fn, line),
                         "the render buffer is handed to `%s`: buffered render no longer returns exactly the streamed bytes" % nm)
            continue
        if kinds.count("render_to") != 1 or kinds.count("convert") != 1:
            rep.viol("R-VERBATIM.buffered", key, where,
                     "buffer must go to exactly one render_to and one UTF-8 conversion, found %s" % kinds)
            continue
        # the String that is returned must come from that conversion: every call producing a String
        # other than the conversion (or Result::expect on it) is a transformation
        other = []
        for bi, t in P.calls(fn):
            d = t["d"]
            if d[1]:
                continue
            if P.local_ty(fn, d[0]) == "alloc::string::String":
                nm = t["f"]["name"] if t.get("f") else "?"
                if "from_utf8" in nm or nm.endswith("convert_buffer") or nm.endswith("::expect") or nm.endswith("::unwrap"):
                    continue
                other.append((nm, t["line"]))
        if other:
            for nm, line in other:
                rep.viol("R-VERBATIM.buffered", "%s string-transform %s" % (key, nm), P.where(fn, line),
                         "`%s` produces the returned String: buffered output differs from streamed output" % nm)
            continue
        rep.ok("R-VERBATIM.buffered", key, where, "fresh Vec<u8> -> one render_to -> from_utf8/convert_buffer -> returned")
    # convert_buffer itself only converts
    cb = P.by_key("liquid::template::convert_buffer")
    if len(cb) != 1:
        rep.anchor_missing("R-VERBATIM.buffered", "liquid::template::convert_buffer")
    else:
        fn = cb[0]
        badc = []
        for bi, t in P.calls(fn):
            nm = t["f"]["name"] if t.get("f") else "?"
            if "from_utf8" in nm or nm.endswith("::expect") or "precondition_check" in nm or "ub_checks" in nm:
                continue
            badc.append(nm)
        if badc:
            rep.viol("R-VERBATIM.buffered", "convert_buffer", P.where(fn), "convert_buffer calls %s" % badc)
        else:
            rep.ok("R-VERBATIM.buffered", "convert_buffer", P.where(fn), "only String::from_utf8[_unchecked] (+expect)")


def single_field_print(P, rep, keys):
    """render_to prints one field of self with a single sink write and calls nothing else."""
    for key in keys:
        fn = P.fn_by_key(key)
        where = P.where(fn)
        sinks = []
        others = []
        displayed = []
        for bi, t in P.calls(fn):
            f = t.get("f")
            if f and f.get("trait") == IO_WRITE:
                sinks.append(t)
            elif f and f["id"].endswith("::new_display"):
                displayed.append((bi, t))
            elif _is_plumbing(t):
                continue
            else:
                others.append((f["name"] if f else "indirect", t["line"]))
        if len(sinks) != 1:
            rep.viol("R-VERBATIM.text", key + " sink-count", where, "expected exactly one sink write, found %d" % len(sinks))
            continue
        if others:
            for nm, line in others:
                rep.viol("R-VERBATIM.text", "%s extra-call %s" % (key, nm), P.where(fn, line),
                         "literal text passes through `%s` before being written (must be written verbatim)" % nm)
            continue
        if len(displayed) != 1:
            rep.viol("R-VERBATIM.text", key + " display-args", where, "expected exactly one formatted argument, found %d" % len(displayed))
            continue
        # the displayed value is a reference to a field of *self
        bi, t = displayed[0]
        ok = False
        ol = op_local(t["args"][0])
        if ol:
            al = {ol[0]}
            # walk back through copies / derefs to a `ref (*_1).field`
            for _ in range(8):
                found = None
                for b in fn.blocks:
                    for st in b["s"]:
                        if st[0] == "a" and st[1][0] in al and not st[1][1]:
                            rv = st[2]
                            if rv["k"] == "ref" and rv["p"][0] == 1 and [p[0] for p in rv["p"][1]] == ["d", "f"]:
                                ok = True
                            elif rv["k"] == "ref":
                                found = rv["p"][0]
                            elif rv["k"] == "use":
                                o2 = op_local(rv["o"])
                                if o2:
                                    found = o2[0]
                            elif rv["k"] == "agg":
                                for o in rv["ops"]:
                                    o2 = op_local(o)
                                    if o2:
                                        found = o2[0]
                            if found is not None:
                                al.add(found)
                if ok:
                    break
        if not ok:
            rep.viol("R-VERBATIM.text", key + " display-source", where, "the printed value is not a plain field of self")
            continue
        # the format template is exactly "{}": no literal text around the field, no width/fill/precision (read off the expanded AST)
        fm = P.fmts_in(fn)
        if len(fm) != 1:
            rep.viol("R-VERBATIM.text", key + " template-count", where, "expected exactly one format_args! site, found %d" % len(fm))
            continue
        pcs = fm[0]["pieces"]
        plain = (len(pcs) == 1 and "lit" not in pcs[0] and pcs[0].get("trait") == "Display" and not pcs[0].get("fill") and not pcs[0].get("align")
                 and pcs[0].get("width") is None and pcs[0].get("precision") is None and not pcs[0].get("zero_pad") and not pcs[0].get("alternate")
                 and not pcs[0].get("sign"))
        if not plain:
            rep.viol("R-VERBATIM.text", key + " template", "%s:%s" % (fm[0]["file"], fm[0]["line"]),
                     "the text is written through a format template other than \"{}\" (%s): literal pieces, width, precision or fill alter/pad/truncate the text"
                     % ", ".join(("literal %r" % p_["lit"]) if "lit" in p_ else "placeholder%s" % ("" if not any(p_.get(k) for k in ("fill", "align", "width", "precision", "sign")) else " with options") for p_ in pcs))
            continue
        rep.ok("R-VERBATIM.text", key, where, "one sink write of `self.<field>` through the template \"{}\", no other call")


def no_calls(P, rep, key):
    fn = P.fn_by_key(key)
    cs = [t["f"]["name"] if t.get("f") else "indirect" for bi, t in P.calls(fn)]
    if cs:
        rep.viol("R-VERBATIM.comment", key, P.where(fn), "comment renderable calls %s; it must do nothing" % cs)
    else:
        rep.ok("R-VERBATIM.comment", key, P.where(fn), "body makes no call (emits nothing, touches no state)")


def param_unused(P, rep, key, param_local, rule="R-VERBATIM.capture"):
    fn = P.fn_by_key(key)
    used = False
    for op in all_operands(fn):
        ol = op_local(op)
        if ol and ol[0] == param_local:
            used = True
    for b in fn.blocks:
        for st in b["s"]:
            if st[0] == "a" and st[2]["k"] in ("ref", "rawptr", "discr") and st[2]["p"][0] == param_local:
                used = True
    if used:
        rep.viol(rule, key + " writer-used", P.where(fn), "parameter _%d (the caller's writer) is used; capture must print nothing" % param_local)
    else:
        rep.ok(rule, key, P.where(fn), "writer parameter is never read")


def capture_binds_text(P, rep, key, rule="R-VERBATIM.capture"):
    """capture binds exactly the rendered text: one set_global whose value is Value::scalar(String::from_utf8(buffer)), unconditionally."""
    from origins import backward_slice
    fn = P.fn_by_key(key)
    sg = [(bi, t) for bi, t in P.calls(fn) if t.get("f") and t["f"]["id"].endswith("Runtime::set_global")]
    site = "Capture binds its text"
    if len(sg) != 1:
        rep.viol(rule, site, P.where(fn), "expected exactly one set_global, found %d" % len(sg))
        return
    bi, t = sg[0]
    ol = op_local(t["args"][2])
    locs, calls = backward_slice(fn, ol[0]) if ol else (set(), [])
    names = [c["f"]["name"] for c in calls if c.get("f")]
    nil = [st for b in fn.blocks for st in b["s"] if st[0] == "a" and st[2]["k"] == "agg" and st[2].get("id", "").endswith("values::Value") and st[2].get("vname") != "Scalar"]
    sw = []
    rc = [b2 for b2, t2 in P.calls(fn) if t2.get("f") and t2["f"]["id"].endswith("Renderable::render_to")]
    if rc:
        from r_pair import ok_successor
        s_ = ok_successor(P, fn, rc[0])
        region = P.reach(fn, [s_], stop={bi}) if s_ is not None else set()
        sw = [b2 for b2 in region if fn.blocks[b2]["t"]["k"] == "switch" and b2 != s_]
    if not any("from_utf8" in n for n in names) or not any(n.endswith("Value::scalar") for n in names):
        rep.viol(rule, site, P.where(fn, t["line"]), "the bound value is not Value::scalar(String::from_utf8(captured bytes))")
    elif nil:
        rep.viol(rule, site, P.where(fn), "capture can bind a non-string value (%s): the binding must be exactly the text the body printed, even when empty" % nil[0][2].get("vname"))
    elif sw:
        rep.viol(rule, site, P.where(fn), "the binding is conditional on the captured text")
    else:
        rep.ok(rule, site, P.where(fn, t["line"]), "set_global(id, Value::scalar(from_utf8(buffer))) unconditionally after the body rendered")
