"""E2: analyses over the pest grammar AST (dumped by pestfacts/).  Source analysis only."""
import json
import os
import subprocess
from facts import VERIF, REPO, FactsError

PESTFACTS = os.environ.get("LR_PESTFACTS") or os.path.join(VERIF, "pestfacts", "target", "release", "pestfacts")
GRAMMAR_REL = "crates/core/src/parser/grammar.pest"

BUILTIN_CHARSETS = {
    "NEWLINE": ["\n", "\r\n", "\r"],
}
BUILTIN_RULES = ("ANY", "SOI", "EOI", "NEWLINE", "ASCII_DIGIT", "ASCII_ALPHA", "ASCII_ALPHANUMERIC", "ASCII", "PEEK", "POP", "DROP")


class Grammar:
    def __init__(self, repo=None):
        repo = repo or REPO
        path = os.path.join(repo, GRAMMAR_REL)
        if not os.path.exists(PESTFACTS):
            raise FactsError("pestfacts not built (run setup)")
        if not os.path.exists(path):
            raise FactsError("grammar file missing: " + path)
        p = subprocess.run([PESTFACTS, path], stdout=subprocess.PIPE, stderr=subprocess.PIPE, text=True)
        if p.returncode != 0:
            raise FactsError("grammar does not load: " + p.stderr[-400:])
        d = json.loads(p.stdout)
        self.rules = {r["name"]: r for r in d["rules"]}
        self.order = [r["name"] for r in d["rules"]]

    def rule(self, name):
        return self.rules.get(name)

    def is_silent(self, name):
        r = self.rules.get(name)
        return r is not None and r["ty"] == "silent"

    def produces_pair(self, name):
        """Does matching this identifier create a token pair?"""
        if name in ("SOI", "ANY", "NEWLINE", "PEEK", "POP", "DROP") or name.startswith("ASCII"):
            return False
        if name == "EOI":
            return True
        r = self.rules.get(name)
        return r is not None and r["ty"] != "silent"

    # -- always-present children ---------------------------------------------------------
    def req(self, e, inside_atomic=False, depth=0):
        """Sequence of non-silent rule names that every match of expression e produces (in order)
        at this nesting level, as a list of sets (alternatives) — conservative (may be shorter)."""
        k = e["k"]
        if depth > 40:
            return []
        if k == "ident":
            n = e["v"]
            if self.produces_pair(n):
                return [frozenset([n])]
            r = self.rules.get(n)
            if r is not None and r["ty"] == "silent":
                return self.req(r["e"], inside_atomic, depth + 1)
            return []
        if k == "seq":
            return self.req(e["a"], inside_atomic, depth + 1) + self.req(e["b"], inside_atomic, depth + 1)
        if k == "choice":
            alts = self.flatten_choice(e)
            reqs = [self.req(a, inside_atomic, depth + 1) for a in alts]
            if all(len(r) >= 1 for r in reqs):
                # every alternative starts with some child: union of first alternatives; only the common length-1 prefix
                first = frozenset().union(*[r[0] for r in reqs])
                return [first]
            return []
        if k in ("rep1",):
            return self.req(e["e"], inside_atomic, depth + 1)
        if k == "repn" and e.get("min", 0) >= 1:
            return self.req(e["e"], inside_atomic, depth + 1)
        if k == "push":
            return self.req(e["e"], inside_atomic, depth + 1)
        return []  # opt, rep, predicates, strings, ranges

    def flatten_choice(self, e):
        if e["k"] == "choice":
            return self.flatten_choice(e["a"]) + self.flatten_choice(e["b"])
        if e["k"] == "ident" and self.is_silent(e["v"]):
            return self.flatten_choice(self.rules[e["v"]]["e"])
        return [e]

    def children(self, rule_name):
        """req() of the rule body; an atomic (@) rule produces no inner pairs."""
        r = self.rules.get(rule_name)
        if r is None:
            return None
        if r["ty"] == "atomic":
            return []
        return self.req(r["e"])

    def possible_children(self, e, acc=None, depth=0):
        """Every non-silent rule that can appear as a direct child when e matches."""
        acc = acc if acc is not None else set()
        if depth > 60:
            return acc
        k = e["k"]
        if k == "ident":
            n = e["v"]
            if self.produces_pair(n):
                acc.add(n)
            elif n in self.rules and self.rules[n]["ty"] == "silent":
                self.possible_children(self.rules[n]["e"], acc, depth + 1)
        elif k in ("seq", "choice"):
            self.possible_children(e["a"], acc, depth + 1)
            self.possible_children(e["b"], acc, depth + 1)
        elif k in ("opt", "rep", "rep1", "repn", "push"):
            self.possible_children(e["e"], acc, depth + 1)
        return acc  # predicates produce no pairs

    def child_set(self, rule_name):
        r = self.rules.get(rule_name)
        if r is None or r["ty"] == "atomic":
            return set()
        return self.possible_children(r["e"])

    # -- character classes ------------------------------------------------------------------
    def single_strings(self, e, depth=0):
        """Set of literal strings an expression made only of choices of literals accepts, else None."""
        k = e["k"]
        if depth > 20:
            return None
        if k == "str":
            return {e["v"]}
        if k == "ident":
            if e["v"] in BUILTIN_CHARSETS:
                return set(BUILTIN_CHARSETS[e["v"]])
            r = self.rules.get(e["v"])
            return self.single_strings(r["e"], depth + 1) if r else None
        if k == "choice":
            a, b = self.single_strings(e["a"], depth + 1), self.single_strings(e["b"], depth + 1)
            if a is None or b is None:
                return None
            return a | b
        return None

    # -- structural matching ----------------------------------------------------------------
    @staticmethod
    def shape(e):
        """Compact s-expression of an expression tree (for structural comparison in reports)."""
        k = e["k"]
        if k in ("str", "insens"):
            return json.dumps(e["v"])
        if k == "ident":
            return e["v"]
        if k == "range":
            return "%s..%s" % (json.dumps(e["a"]), json.dumps(e["b"]))
        if k == "seq":
            return "(%s ~ %s)" % (Grammar.shape(e["a"]), Grammar.shape(e["b"]))
        if k == "choice":
            return "(%s | %s)" % (Grammar.shape(e["a"]), Grammar.shape(e["b"]))
        if k == "neg":
            return "!%s" % Grammar.shape(e["e"])
        if k == "pos":
            return "&%s" % Grammar.shape(e["e"])
        if k == "opt":
            return "%s?" % Grammar.shape(e["e"])
        if k == "rep":
            return "%s*" % Grammar.shape(e["e"])
        if k == "rep1":
            return "%s+" % Grammar.shape(e["e"])
        return k


_g = {}


def load(repo=None):
    key = repo or REPO
    if key not in _g:
        _g[key] = Grammar(repo)
    return _g[key]
