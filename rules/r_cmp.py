"""C11 / C14 rules: R-FWD(cmp) delegation, R-MIRROR symmetry of the scalar comparison tables,
eq/cmp sibling agreement, R-ORDERINS hash-order independence, R-CMPTOTAL comparator totality."""
from facts import LIB_CRATES
from mirutil import op_local
from origins import SelfOrigins

CMP_CALLS = ("eq", "ne", "partial_cmp", "cmp", "lt", "le", "gt", "ge")
SCALAR_ENUM = "liquid_core::model::scalar::ScalarCowEnum"


# ---------------------------------------------------------------------------------------
# delegation of PartialEq / PartialOrd impls

CORE_FNS = {
    "value_eq": "liquid_core::model::value::view::value_eq",
    "value_cmp": "liquid_core::model::value::view::value_cmp",
    "scalar_eq": "liquid_core::model::scalar::scalar_eq",
    "scalar_cmp": "liquid_core::model::scalar::scalar_cmp",
}
MODEL_TYPES = ("liquid_core::model::value::values::Value", "liquid_core::model::value::cow::ValueCow",
               "liquid_core::model::value::view::ValueViewCmp", "liquid_core::model::scalar::ScalarCow")


def run_delegation(P, rep, rule="R-FWD.cmp"):
    n = 0
    for im in P.impls:
        if im["crate"] != "liquid_core" or im.get("trait") not in ("core::cmp::PartialEq", "core::cmp::PartialOrd"):
            continue
        st = P.impl_self_str(im)
        base = P.ty(im["crate"], im["self"])
        if base["k"] != "adt" or base["id"] not in MODEL_TYPES:
            continue
        is_eq = im["trait"].endswith("PartialEq")
        names = [it["name"] for it in im["items"] if it["is_fn"]]
        want = "eq" if is_eq else "partial_cmp"
        site = "%s for %s (rhs %s)" % (im["trait"].rsplit("::", 1)[1], st.rsplit("::", 1)[-1],
                                      P.tstr(im["crate"], im["trait_args"][1]).rsplit("::", 1)[-1] if len(im.get("trait_args", [])) > 1 else "Self")
        where = "%s:%s" % (im["file"], im["line"])
        extra = [x for x in names if x != want]
        if extra:
            rep.viol(rule, site + " overrides", where,
                     "overrides %s: `!=`/`<`/`<=`/`>`/`>=` would no longer be derived from the one %s" % (extra, want))
            continue
        fid = [it["id"] for it in im["items"] if it["name"] == want]
        fn = P.fns.get(fid[0]) if fid else None
        if fn is None:
            rep.anchor_missing(rule, site)
            continue
        n += 1
        # what does it reach (depth <= 3 through other PartialEq/PartialOrd impls of model types)?
        reached = set()
        seen = set()
        work = [(fn, 0)]
        while work:
            g, d = work.pop()
            if g.id in seen or d > 4:
                continue
            seen.add(g.id)
            for bi, t in P.calls(g):
                tgs = list(P.callee_targets(t))
                f0 = t.get("f")
                if f0 and f0["id"] in ("core::cmp::PartialEq::eq", "core::cmp::PartialOrd::partial_cmp") and not tgs and "self_ty" in f0:
                    sty = P.tstr(g.crate, f0["self_ty"]).lstrip("&")
                    for im2 in P.impls_of(f0["trait"]):
                        if im2["crate"] == "liquid_core" and P.impl_self_str(im2) == sty:
                            tgs += [it["id"] for it in im2["items"] if it["is_fn"]]
                for tg in tgs:
                    for nm, fid2 in CORE_FNS.items():
                        if tg == fid2:
                            reached.add(nm)
                    tf = P.fns.get(tg)
                    if tf is not None and tf.impl and tf.impl.get("trait") in ("core::cmp::PartialEq", "core::cmp::PartialOrd") \
                            and tf.crate == "liquid_core" and tg not in CORE_FNS.values():
                        work.append((tf, d + 1))
        fam = {"value_eq", "scalar_eq"} if is_eq else {"value_cmp", "scalar_cmp"}
        wrong = reached - fam
        good = reached & fam
        if wrong:
            rep.viol(rule, site, where, "%s reaches %s (an ordering answered by the equality function or vice versa)" % (want, sorted(wrong)))
        elif not good:
            rep.viol(rule, site, where, "%s does not delegate to %s" % (want, sorted(fam)))
        else:
            rep.ok(rule, site, where, "%s delegates to %s; no other comparison method overridden" % (want, sorted(good)))
    rep.analysed[rule + ".impls"] = n


# ---------------------------------------------------------------------------------------
# discriminant-pair tables of scalar_eq / scalar_cmp

def enum_variants(P, adt_id):
    a = P.adts.get(adt_id)
    return [v["name"] for v in a["variants"]] if a else []


def body_ops(P, fn, depth=2, seen=None):
    """All conversion/comparison ops in a body (used for one-level inlining of helpers)."""
    seen = seen or set()
    out = set()
    if fn.id in seen:
        return out
    seen = seen | {fn.id}
    for b in fn.blocks:
        out |= block_ops(P, fn, b, depth, seen)
    return out


def block_ops(P, fn, b, depth, seen):
    out = set()
    for st in b["s"]:
        if st[0] != "a":
            continue
        rv = st[2]
        if rv["k"] == "cast" and rv["ck"] in ("IntToFloat", "FloatToInt", "IntToInt", "FloatToFloat"):
            out.add("cast:" + rv["ck"])
        elif rv["k"] == "bin" and rv["op"] in ("Eq", "Ne", "Lt", "Le", "Gt", "Ge", "Cmp"):
            out.add("bin:" + rv["op"])
        elif rv["k"] == "un" and rv["op"] == "Not":
            out.add("un:Not")
    t = b["t"]
    if t["k"] == "call" and t.get("f"):
        f = t["f"]
        last = f["id"].rsplit("::", 1)[1]
        tg = [x for x in P.callee_targets(t) if x in P.fns]
        if f["krate"].startswith("liquid") and len(tg) == 1 and depth > 0 and not f.get("trait"):
            out |= body_ops(P, P.fns[tg[0]], depth - 1, seen)  # helper inlined: its name is irrelevant
        else:
            # comparison of payloads: record the method and the payload type
            st = P.tstr(fn.crate, f["self_ty"]) if "self_ty" in f else ""
            out.add("call:%s<%s>" % (last, st.rsplit("::", 1)[-1]) if last in CMP_CALLS else "call:" + last)
    return out


def pair_table(P, fn, variants):
    """(dl, dr) -> (ops executed on the path selected by that discriminant pair, returned constant)."""
    succ = P.succ(fn)
    so = SelfOrigins(P, fn, seed={1: (1,), 2: (2,)})  # origin tuple = (param,...)
    # the scrutinee is a tuple of references: remember which operand came from which parameter
    tup = {}
    for b in fn.blocks:
        for st in b["s"]:
            if st[0] == "a" and st[2]["k"] == "agg" and st[2].get("ak") == "tuple" and not st[1][1]:
                sides = []
                for o in st[2]["ops"]:
                    ol = op_local(o)
                    og = so.place_origin([ol[0], ol[1]]) if ol else None
                    sides.append(og[0] if og else None)
                tup[st[1][0]] = sides

    for b in fn.blocks:
        for st in b["s"]:
            if st[0] == "a" and st[2]["k"] == "use" and not st[1][1]:
                ol = op_local(st[2]["o"])
                if ol and ol[0] in tup and ol[1] and ol[1][0][0] == "f":
                    k = ol[1][0][1]
                    if k < len(tup[ol[0]]) and tup[ol[0]][k] is not None and st[1][0] not in so.org:
                        so.org[st[1][0]] = (tup[ol[0]][k],)
    so._solve()

    def side_of(place):
        og = so.place_origin(place)
        if og:
            return og[0]
        base, proj = place
        if base in tup:
            for p in proj:
                if p[0] == "f":
                    return tup[base][p[1]] if p[1] < len(tup[base]) else None
        return None
    table = {}
    for dl in range(len(variants)):
        for dr in range(len(variants)):
            ops = set()
            consts = set()
            seen = set()
            work = [0]
            while work:
                bi = work.pop()
                if bi in seen:
                    continue
                seen.add(bi)
                b = fn.blocks[bi]
                ops |= block_ops(P, fn, b, 2, {fn.id})
                for st in b["s"]:
                    if st[0] == "a" and st[1][0] == 0 and not st[1][1]:
                        rv = st[2]
                        if rv["k"] == "use" and rv["o"][0] == "k":
                            consts.add(str(rv["o"][1].get("val")))
                        elif rv["k"] == "agg":
                            consts.add(rv.get("vname", "agg"))
                t = b["t"]
                if t["k"] == "switch":
                    ol = op_local(t["o"])
                    side = None
                    if ol:
                        for st in b["s"]:
                            if st[0] == "a" and st[1][0] == ol[0] and st[2]["k"] == "discr":
                                side = side_of(st[2]["p"])
                    if side in (1, 2):
                        want = dl if side == 1 else dr
                        nxt = None
                        for v, tb in t["t"]:
                            if v == want:
                                nxt = tb
                        work.append(nxt if nxt is not None else t["else"])
                        continue
                for n in succ[bi]:
                    work.append(n)
            table[(dl, dr)] = (frozenset(ops), frozenset(consts))
    return table


def conv(ops):
    out = set()
    for o in ops:
        if o.startswith("cast:"):
            out.add(o)
        elif o.startswith("call:"):
            last = o[5:].split("<")[0]
            if last not in CMP_CALLS and last not in ("deref", "as_ref", "as_str", "borrow", "clone", "from", "into"):
                out.add("call:" + last)
    return frozenset(out)


def run_mirror(P, rep, rule="R-MIRROR"):
    variants = enum_variants(P, SCALAR_ENUM)
    if len(variants) < 6:
        rep.anchor_missing(rule, "ScalarCowEnum variants")
        return
    tabs = {}
    for nm in ("scalar_eq", "scalar_cmp"):
        fn = P.fn_by_key(CORE_FNS[nm])
        tabs[nm] = pair_table(P, fn, variants)
        tab = tabs[nm]
        bad = 0
        for a in range(len(variants)):
            for b in range(a + 1, len(variants)):
                n1, n2 = tab[(a, b)], tab[(b, a)]
                site = "%s (%s,%s)" % (nm, variants[a], variants[b])
                if n1 != n2:
                    bad += 1
                    rep.viol(rule, site, P.where(fn),
                             "%s treats (%s,%s) and (%s,%s) differently: %s vs %s — comparison is not symmetric/dual"
                             % (nm, variants[a], variants[b], variants[b], variants[a],
                                sorted(n1[0]) + sorted(n1[1]), sorted(n2[0]) + sorted(n2[1])))
                else:
                    rep.ok(rule, site, P.where(fn), "mirrored arms perform the same conversions and comparison")
    # sibling agreement: where scalar_cmp orders a pair, scalar_eq uses the same conversions
    fe = P.fn_by_key(CORE_FNS["scalar_eq"])
    for a in range(len(variants)):
        for b in range(len(variants)):
            ce = tabs["scalar_eq"][(a, b)]
            cc = tabs["scalar_cmp"][(a, b)]
            cmp_orders = any(o.startswith("call:partial_cmp") or o.startswith("call:cmp") or o.startswith("bin:") for o in cc[0])
            if not cmp_orders:
                continue
            site = "eq~cmp (%s,%s)" % (variants[a], variants[b])
            if conv(ce[0]) != conv(cc[0]):
                rep.viol(rule + ".siblings", site, P.where(fe),
                         "scalar_eq converts with %s but scalar_cmp with %s for the same kinds: `==` and `<`/`>` can disagree"
                         % (sorted(conv(ce[0])), sorted(conv(cc[0]))))
            else:
                rep.ok(rule + ".siblings", site, P.where(fe), "same conversions %s in equality and ordering" % sorted(conv(ce[0])))


def run_value_symmetry(P, rep, rule="R-MIRROR.value"):
    """value_eq / value_cmp ask the same questions of both operands."""
    for nm in ("value_eq", "value_cmp"):
        fn = P.fn_by_key(CORE_FNS[nm])
        so = SelfOrigins(P, fn, seed={1: (1,), 2: (2,)})
        asked = {1: [], 2: []}
        for body, org in so.all_bodies():
            if body is not fn:
                continue
            for bi, t in P.calls(body):
                f = t.get("f")
                if not f or not f.get("trait", "").endswith("ValueView"):
                    continue
                ol = op_local(t["args"][0]) if t["args"] else None
                o = org.place_origin([ol[0], ol[1]]) if ol else None
                if o and o[0] in (1, 2):
                    asked[o[0]].append(f["id"].rsplit("::", 1)[1])
        if sorted(asked[1]) != sorted(asked[2]):
            rep.viol(rule, nm, P.where(fn), "lhs is asked %s but rhs %s: the function cannot be symmetric" % (sorted(asked[1]), sorted(asked[2])))
        else:
            rep.ok(rule, nm, P.where(fn), "both operands are queried with %s" % sorted(set(asked[1])))
        # ordering must be dual: the array/object views obtained from the two operands are consumed alike
        side_of_view = {}
        for bi, t in P.calls(fn):
            f = t.get("f")
            if f and f.get("trait", "").endswith("ValueView") and f["id"].rsplit("::", 1)[1] in ("as_array", "as_object", "as_scalar"):
                ol = op_local(t["args"][0])
                o = so.place_origin([ol[0], ol[1]]) if ol else None
                if o and o[0] in (1, 2):
                    side_of_view[t["d"][0]] = o[0]
        from origins import backward_slice
        from mirutil import defs_of

        def view_side(local, depth=12):
            """Which operand's view a local holds: follows moves, tuple-field reads of (view1, view2) aggregates and Some-payload reads."""
            cur = local
            for _ in range(depth):
                if cur in side_of_view:
                    return side_of_view[cur]
                ds = defs_of(fn, cur)
                if len(ds) != 1 or ds[0][0] != "a":
                    return None
                d = ds[0][3]
                pl = None
                if d["k"] in ("use", "cast"):
                    ol2 = op_local(d["o"])
                    pl = [ol2[0], ol2[1]] if ol2 else None
                elif d["k"] == "ref":
                    pl = d["p"]
                if pl is None:
                    return None
                base, proj = pl
                fidx = [p_[1] for p_ in proj if p_[0] == "f"]
                bds = defs_of(fn, base)
                if fidx and len(bds) == 1 and bds[0][0] == "a" and bds[0][3]["k"] == "agg" and bds[0][3].get("ak") == "tuple":
                    ops = bds[0][3]["ops"]
                    k = fidx[0]
                    o3 = op_local(ops[k]) if k < len(ops) else None
                    if not o3:
                        return None
                    cur = o3[0]
                    continue
                cur = base
            return None
        if nm == "value_eq":
            # the two "scalar against a non-scalar" arms are mirror images: the constants that default an undecided to_bool()
            # are the same for the scalar taken from the left and from the right operand
            from mirutil import copy_root
            dflt = {1: [], 2: []}
            tb = {}
            for bi, t in P.calls(fn):
                f = t.get("f")
                if f and f["id"].rsplit("::", 1)[1] == "to_bool" and t["args"]:
                    ol = op_local(t["args"][0])
                    sd = view_side(ol[0]) if ol else None
                    if sd in (1, 2):
                        tb[t["d"][0]] = sd
            for bi, t in P.calls(fn):
                f = t.get("f")
                if f and f["id"].rsplit("::", 1)[1] == "unwrap_or" and len(t["args"]) > 1:
                    ol = op_local(t["args"][0])
                    r_ = copy_root(fn, ol[0]) if ol else None
                    sd = tb.get(ol[0] if ol else None) or tb.get(r_)
                    c = t["args"][1]
                    if sd and c[0] == "k" and isinstance(c[1], dict) and "val" in c[1]:
                        dflt[sd].append(c[1]["val"])
            if sorted(map(str, dflt[1])) != sorted(map(str, dflt[2])):
                rep.viol(rule, "value_eq mirrored defaults", P.where(fn),
                         "an undecided to_bool() of the left operand's scalar is defaulted with %s, of the right operand's with %s: `a == b` and `b == a` disagree "
                         "when one side is a non-boolean scalar and the other a collection" % (sorted(map(str, dflt[1])), sorted(map(str, dflt[2]))))
            elif dflt[1]:
                rep.ok(rule, "value_eq mirrored defaults", P.where(fn), "to_bool() defaults %s on both sides" % sorted(map(str, dflt[1])))
            continue
        used = {1: [], 2: []}
        for body, org in so.all_bodies():
            for bi, t in P.calls(body):
                f = t.get("f")
                if not f or not f.get("trait", "").endswith(("ObjectView", "ArrayView")) or not t["args"]:
                    continue
                if body is not fn:
                    # closures: receiver captured from the parent; attribute by the upvar's source local
                    continue
                ol = op_local(t["args"][0])
                sd = view_side(ol[0]) if ol else None
                if sd in (1, 2):
                    used[sd].append(f["id"].rsplit("::", 1)[1])
        # containers are ordered by their elements: an ordering computed from two lengths is at most the tie-break *after* the
        # elements have been walked (lexicographic order), never the first thing decided
        walks = [bi for bi, t in P.calls(fn) if t.get("f") and (
            (t["f"].get("trait", "").endswith(("ArrayView", "ObjectView")) and t["f"]["id"].rsplit("::", 1)[1] in ("values", "iter", "keys", "get"))
            or t["f"]["id"].endswith("Iterator::next"))]
        after_walk = P.reach(fn, [b2 for w in walks for b2 in P.succ(fn)[w]]) if walks else set()
        k_len = 0
        for bi, t in P.calls(fn):
            f = t.get("f")
            if not f or f["id"].rsplit("::", 1)[1] not in ("partial_cmp", "cmp") or not t["args"]:
                continue
            ol = op_local(t["args"][0])
            ty = P.local_ty(fn, ol[0]) if ol else ""
            if ty.lstrip("&") not in ("usize", "u64", "u32", "i64", "i32", "isize"):
                continue
            if bi not in after_walk:
                rep.viol(rule, "value_cmp length-order#%d" % k_len, P.where(fn, t["line"]),
                         "two containers are ordered by comparing their lengths before any element is looked at: [9] < [1, 2] would hold; "
                         "the value model orders arrays element by element (length is only the tie-break of a common prefix)")
            k_len += 1
        # the key sorts of both operands use the same orientation: `|a, b| a.cmp(b)` — a comparator with its arguments swapped
        # sorts one side descending, and two equal objects then compare Less both ways
        from origins import backward_slice
        k_s = 0
        for body, org in so.all_bodies():
            if body is fn or body.kind != "closure" or body.argc != 3:
                continue
            for bi, t in P.calls(body):
                f = t.get("f")
                if not f or f["id"].rsplit("::", 1)[1] not in ("cmp", "partial_cmp") or len(t["args"]) < 2:
                    continue
                a0, a1 = op_local(t["args"][0]), op_local(t["args"][1])
                if not a0 or not a1:
                    continue
                l0, l1 = backward_slice(body, a0[0])[0], backward_slice(body, a1[0])[0]
                if (3 in l0 and 2 not in l0) and (2 in l1 and 3 not in l1):
                    rep.viol(rule, "value_cmp key-sort#%d reversed" % k_s, P.where(body, t["line"]),
                             "a two-argument comparator closure of value_cmp compares its second argument with its first (`|a, b| b.cmp(a)`): that side is sorted in "
                             "descending order, so entry-wise comparison pairs different keys")
                elif (2 in l0 and 3 not in l0) and (3 in l1 and 2 not in l1):
                    rep.ok(rule, "value_cmp key-sort#%d" % k_s, P.where(body, t["line"]), "comparator closure compares (first argument, second argument)")
                k_s += 1
        # mirrored defaults of value_eq are checked in run_eq_defaults
        closure_view_calls = []
        for body, org in so.all_bodies():
            if body is fn:
                continue
            for bi, t in P.calls(body):
                f = t.get("f")
                if f and f.get("trait", "").endswith(("ObjectView", "ArrayView")):
                    closure_view_calls.append(f["id"].rsplit("::", 1)[1])
        if sorted(used[1]) != sorted(used[2]) or any(c in ("get", "contains_key") for c in closure_view_calls):
            rep.viol(rule, "value_cmp duality", P.where(fn),
                     "the two operands' array/object views are consumed differently (lhs %s, rhs %s, in closures %s): cmp(a,b) and cmp(b,a) are not mirror images"
                     % (sorted(used[1]), sorted(used[2]), sorted(closure_view_calls)))
        else:
            rep.ok(rule, "value_cmp duality", P.where(fn), "lhs and rhs views are both consumed with %s" % sorted(set(used[1])))


# ---------------------------------------------------------------------------------------
# R-ORDERINS

HASH_ITER_TRAITS = ("liquid_core::model::object::ObjectView",)
ORDER_SENSITIVE = ("partial_cmp", "cmp", "eq", "ne", "lt", "le", "gt", "ge", "zip", "next", "nth", "last", "position",
                   "take", "skip", "enumerate", "fold", "try_fold", "reduce", "rev", "find", "find_map", "nth_back", "step_by",
                   "take_while", "skip_while", "peekable", "chain", "eq_by", "cmp_by", "partial_cmp_by")
ORDER_ADAPTERS = ("map", "filter", "filter_map", "cloned", "copied", "into_iter", "by_ref", "inspect", "flat_map", "flatten")
ORDER_FREE = ("all", "any", "count", "sum", "product", "min", "max", "min_by", "max_by", "min_by_key", "max_by_key",
              "for_each", "extend", "len", "size_hint")


def run_orderins(P, rep, keys, rule="R-ORDERINS"):
    for key in keys:
        fns = P.by_key(key)
        if len(fns) != 1:
            rep.anchor_missing(rule, key)
            continue
        root = fns[0]
        bodies = [b for b, _ in SelfOrigins(P, root, seed={}).all_bodies()]
        n_src = 0
        for fn in bodies:
            for bi, t in P.calls(fn):
                f = t.get("f")
                if not f or f.get("trait") not in HASH_ITER_TRAITS:
                    continue
                m = f["id"].rsplit("::", 1)[1]
                if m not in ("iter", "keys", "values"):
                    continue
                n_src += 1
                site = "%s %s()#%d" % (root.key.rsplit("::", 1)[-1], m, n_src)
                verdict = follow_iter(P, fn, t)
                if verdict[0] == "bad":
                    rep.viol(rule, site, P.where(fn, verdict[2]),
                             "object entries (hash iteration order) are consumed by order-sensitive `%s`: the result depends on how the object was built" % verdict[1])
                elif verdict[0] == "ok":
                    rep.ok(rule, site, P.where(fn, t["line"]), "consumed by order-insensitive `%s`" % verdict[1])
                else:
                    rep.viol(rule, site, P.where(fn, t["line"]), "object entry iterator escapes the recognised consumers (%s)" % verdict[1])
        rep.analysed[rule + "." + root.key.rsplit("::", 1)[-1]] = n_src


def follow_iter(P, fn, t, depth=12):
    holder = t["d"][0]
    cur = t["t"]
    for _ in range(80):
        if cur is None:
            return ("unknown", "diverges", 0)
        b = fn.blocks[cur]
        for st in b["s"]:
            if st[0] == "a" and not st[1][1]:
                rv = st[2]
                if rv["k"] in ("use", "cast"):
                    ol = op_local(rv["o"])
                    if ol and ol[0] == holder and not ol[1]:
                        holder = st[1][0]
                elif rv["k"] == "ref" and rv["p"][0] == holder and not rv["p"][1]:
                    holder = st[1][0]
        tt = b["t"]
        if tt["k"] == "call":
            pos = [k for k, a in enumerate(tt["args"]) if (op_local(a) or (None,))[0] == holder]
            if pos:
                f = tt.get("f")
                last = f["id"].rsplit("::", 1)[1] if f else "?"
                if last in ORDER_ADAPTERS or last in ("new", "into", "from"):
                    holder = tt["d"][0]
                    cur = tt["t"]
                    continue
                if last in ORDER_SENSITIVE:
                    return ("bad", last, tt["line"])
                if last in ORDER_FREE:
                    return ("ok", last, tt["line"])
                if last == "collect":
                    # accepted when the collected sequence is sorted (by key) before use
                    dest = tt["d"][0]
                    from mirutil import alias_closure, calls_using
                    al = alias_closure(fn, [dest])
                    for _i in range(4):
                        more = set()
                        for b2, t2, p2 in calls_using(fn, al):
                            l2 = t2["f"]["id"].rsplit("::", 1)[1] if t2.get("f") else ""
                            if l2 in ("deref", "deref_mut", "as_mut_slice", "as_slice", "as_mut", "as_ref", "borrow_mut") and not t2["d"][1]:
                                more.add(t2["d"][0])
                        if more <= al:
                            break
                        al = alias_closure(fn, list(al | more))
                    for b2, t2, p2 in calls_using(fn, al):
                        l2 = t2["f"]["id"].rsplit("::", 1)[1] if t2.get("f") else ""
                        if l2.startswith("sort"):
                            return ("ok", "collect + " + l2, tt["line"])
                    # BTreeMap/BTreeSet targets are ordered by key
                    if "btree" in P.local_ty(fn, dest).lower():
                        return ("ok", "collect into an ordered map/set", tt["line"])
                    return ("bad", "collect (never sorted)", tt["line"])
                return ("unknown", last, tt["line"])
            cur = tt["t"]
        elif tt["k"] in ("goto", "drop", "assert"):
            cur = tt["t"]
        elif tt["k"] == "switch":
            return ("unknown", "branch while iterator pending", tt["line"])
        else:
            return ("unknown", tt["k"], tt.get("line", 0))
    return ("unknown", "too long", 0)


# ---------------------------------------------------------------------------------------
# R-CMPTOTAL

def run_cmptotal(P, rep, rule="R-CMPTOTAL"):
    """Comparators handed to sort_by: stable sort only; a PartialOrd::partial_cmp whose None is
    mapped to a constant makes the comparator a non-total order."""
    n = 0
    _sort_ordinals = {}
    for fn in sorted(P.fns.values(), key=lambda f: f.id):
        if fn.crate not in LIB_CRATES or "::test" in fn.id:
            continue
        for bi, t in P.calls(fn):
            f = t.get("f")
            if not f:
                continue
            last = f["id"].rsplit("::", 1)[1]
            if last not in ("sort_by", "sort_unstable_by", "sort_unstable", "sort_unstable_by_key", "sort_by_key", "sort", "sort_by_cached_key", "binary_search_by"):
                continue
            if not (f["name"].startswith("std::slice::") or "slice" in f["name"] or "Vec" in f["name"]):
                continue
            n += 1
            _ord = _sort_ordinals.setdefault((fn.key, last), 0)
            _sort_ordinals[(fn.key, last)] = _ord + 1
            site = "%s %s#%d" % (fn.key, last, _ord)
            where = P.where(fn, t["line"])
            if "unstable" in last and _is_array_filter(fn):
                rep.viol(rule, site + " stability", where, "array filter sorts with `%s`: equal elements may be reordered (sort must be stable)" % last)
                continue
            if last in ("sort", "sort_by_key", "sort_unstable", "sort_unstable_by_key", "sort_by_cached_key"):
                rep.ok(rule, site, where, "key/Ord based sort: total by construction")
                continue
            # comparator closure / fn
            cmp_fns = []
            for a in t["args"][1:]:
                ol = op_local(a)
                if ol:
                    tyj = P.local_tyj(fn, ol[0])
                    if tyj["k"] == "closure" and tyj["id"] in P.fns:
                        cmp_fns.append(P.fns[tyj["id"]])
                elif a[0] == "k" and "fn" in a[1]:
                    tid = a[1]["fn"]["id"]
                    if tid in P.fns:
                        cmp_fns.append(P.fns[tid])
            if not cmp_fns:
                rep.viol(rule, site, where, "comparator of %s not found" % last)
                continue
            verdicts = []
            del BIASED_DEFAULTS[:]
            for cf in cmp_fns:
                verdicts += comparator_partial_sites(P, cf, 3, set())
            if BIASED_DEFAULTS:
                g_, l_, v_ = BIASED_DEFAULTS[0]
                rep.viol(rule, site + " biased-default", P.where(g_, l_),
                         "an incomparable pair (partial_cmp == None) is mapped to %s instead of Equal: the comparator then says a<b and b<a for such a pair — "
                         "a stable sort swaps neighbours, sorting twice gives a different result" % ("Less" if v_ in (-1, 255) else "Greater" if v_ == 1 else "a non-Equal ordering"))
            if _is_array_filter(fn):
                conv_ = []
                for cf in cmp_fns:
                    conv_ += _pipeline_hits(P, cf, 3, set(), lambda P_, f_, c_: c_["id"].rsplit("::", 1)[1] in ("to_float", "to_integer", "to_bool", "type_name", "total_cmp")
                                            and ("ScalarCow" in c_["name"] or c_.get("trait", "").endswith("ValueView") or "f64" in c_["name"]))
                if conv_:
                    rep.viol(rule, site + " kind-dispatch", where,
                             "the sort comparator converts or classifies the values itself (%s) instead of ordering them with the value model (ValueViewCmp): "
                             "`sort` and `<` can then disagree (signed zero, integers above 2^53)" % sorted(set(conv_))[0])
                # nil goes last: somewhere in the sort pipeline (key extraction or comparator) nil-ness is asked of the values
                cmp_values = any(_pipeline_asks(P, cf, 3, set(), _IS_VALUE_CMP) for cf in cmp_fns)
                cmp_nil = any(_pipeline_asks(P, cf, 3, set(), _IS_NIL) for cf in cmp_fns)
                if cmp_values and not cmp_nil:
                    rep.viol(rule, site + " nil-last", where,
                             "the comparator orders liquid values (ValueViewCmp) without asking ValueView::is_nil of them: a present-but-nil value is not ordered last")
                elif not cmp_values and not _pipeline_asks(P, fn, 3, set(), _IS_NIL):
                    rep.viol(rule, site + " nil-last", where,
                             "the sort pipeline never asks ValueView::is_nil of the compared values: a present-but-nil value is not ordered last")
            if verdicts:
                for (g, line, what) in verdicts[:3]:
                    rep.viol(rule, site, P.where(g, line),
                             "comparator is not a total order: %s — slice::sort_by may panic or misorder on mixed/incomparable elements" % what)
            else:
                rep.ok(rule, site, where, "comparator built from Ord::cmp / total comparisons only")
    rep.analysed[rule + ".sort_sites"] = n


def _IS_NIL(P, fn, f):
    return f["id"].endswith("ValueView::is_nil")


def _IS_VALUE_CMP(P, fn, f):
    if f["id"].rsplit("::", 1)[1] not in ("partial_cmp", "cmp", "lt", "le", "gt", "ge"):
        return False
    st = P.tstr(fn.crate, f["self_ty"]) if "self_ty" in f else ""
    return "ValueViewCmp" in st or "ValueViewCmp" in f["name"] or "values::Value" in st or "ValueView" in st


def _pipeline_hits(P, fn, depth, seen, pred):
    out = []
    if fn.id in seen or depth < 0:
        return out
    seen.add(fn.id)
    for bi, t in P.calls(fn):
        f = t.get("f")
        if not f:
            continue
        if pred(P, fn, f):
            out.append(f["name"])
        for tg in P.callee_targets(t):
            g = P.fns.get(tg)
            if g is not None and g.crate in LIB_CRATES and (g.kind == "closure" or not g.impl):
                out += _pipeline_hits(P, g, depth - 1, seen, pred)
        for a in t["args"]:
            ol = op_local(a)
            if ol:
                tyj = P.local_tyj(fn, ol[0])
                if tyj["k"] == "closure" and tyj["id"] in P.fns:
                    out += _pipeline_hits(P, P.fns[tyj["id"]], depth - 1, seen, pred)
    return out


def _pipeline_asks(P, fn, depth, seen, pred):
    if fn.id in seen or depth < 0:
        return False
    seen.add(fn.id)
    for bi, t in P.calls(fn):
        f = t.get("f")
        if not f:
            continue
        if pred(P, fn, f):
            return True
        for tg in P.callee_targets(t):
            g = P.fns.get(tg)
            if g is not None and g.crate in LIB_CRATES and (g.kind == "closure" or not g.impl):
                if _pipeline_asks(P, g, depth - 1, seen, pred):
                    return True
        for a in t["args"]:
            ol = op_local(a)
            if ol:
                tyj = P.local_tyj(fn, ol[0])
                if tyj["k"] == "closure" and tyj["id"] in P.fns:
                    if _pipeline_asks(P, P.fns[tyj["id"]], depth - 1, seen, pred):
                        return True
            elif a[0] == "k" and "fn" in a[1] and a[1]["fn"]["id"] in P.fns:
                if _pipeline_asks(P, P.fns[a[1]["fn"]["id"]], depth - 1, seen, pred):
                    return True
    return False


def _is_array_filter(fn):
    return "filters::array" in fn.id or "jekyll::array" in fn.id


STD_ORD = ("i64", "i32", "i16", "i8", "isize", "u64", "u32", "u16", "u8", "usize", "bool", "str", "char",
           "alloc::string::String", "core::cmp::Ordering", "kstring::string::KStringBase", "kstring::string_cow::KStringCowBase",
           "kstring::string_ref::KStringRef", "()")


def is_ord(P, ty):
    ty = ty.strip()
    while ty.startswith("&"):
        ty = ty[1:].replace("mut ", "", 1).strip() if ty.startswith("&mut ") else ty[1:].strip()
    if ty in STD_ORD or any(ty.startswith(x + "<") for x in STD_ORD):
        return True
    for wrap in ("core::option::Option<", "alloc::vec::Vec<", "alloc::boxed::Box<", "core::cmp::Reverse<"):
        if ty.startswith(wrap) and ty.endswith(">"):
            return is_ord(P, ty[len(wrap):-1])
    if ty.startswith("(") and ty.endswith(")"):
        return all(is_ord(P, x) for x in split_top(ty[1:-1]))
    for im in P.impls_of("core::cmp::Ord"):
        if P.impl_self_str(im).split("<")[0] == ty.split("<")[0]:
            return True
    return False


def split_top(s):
    out, depth, cur = [], 0, ""
    for ch in s:
        if ch in "<([":
            depth += 1
        elif ch in ">)]":
            depth -= 1
        if ch == "," and depth == 0:
            out.append(cur.strip())
            cur = ""
        else:
            cur += ch
    if cur.strip():
        out.append(cur.strip())
    return out


BIASED_DEFAULTS = []


def comparator_partial_sites(P, fn, depth, seen):
    """(fn, line, what): the comparator defaults an Option<Ordering> that stems from
    PartialOrd::partial_cmp on a type that is not Ord (so None is possible)."""
    partial = []
    defaults = []
    _scan_cmp(P, fn, depth, seen, partial, defaults)
    out = []
    if partial and defaults:
        g, line, ty = partial[0]
        dg, dline, how = defaults[0]
        out.append((dg, dline, "`%s::partial_cmp` (not Ord: may be None, at %s:%s) is defaulted with `%s`: incomparable values are "
                    "treated as equal, which is not transitive" % (ty.rsplit("::", 1)[-1], g.file, line, how)))
    return out


def _scan_cmp(P, fn, depth, seen, partial, defaults):
    if fn.id in seen or depth < 0:
        return
    seen.add(fn.id)
    for bi, t in P.calls(fn):
        f = t.get("f")
        if not f:
            continue
        last = f["id"].rsplit("::", 1)[1]
        if f["id"] == "core::cmp::PartialOrd::partial_cmp":
            st = P.tstr(fn.crate, f["self_ty"]) if "self_ty" in f else "?"
            if not is_ord(P, st):
                partial.append((fn, t["line"], st))
        if last in ("unwrap_or", "unwrap_or_else", "unwrap_or_default", "map_or", "map_or_else") and t["args"]:
            ol = op_local(t["args"][0])
            if ol and P.local_ty(fn, ol[0]) == "core::option::Option<core::cmp::Ordering>":
                defaults.append((fn, t["line"], last))
                from mirutil import defs_of as _defs
                for a in t["args"][1:]:
                    if a[0] == "k" and isinstance(a[1], dict) and a[1].get("val") not in (None, 0):
                        BIASED_DEFAULTS.append((fn, t["line"], a[1].get("val")))
                    al = op_local(a)
                    for d in (_defs(fn, al[0]) if al and not al[1] else []):
                        if d[0] == "a" and d[3]["k"] == "agg" and d[3].get("id") == "core::cmp::Ordering" and d[3].get("vname") in ("Less", "Greater"):
                            BIASED_DEFAULTS.append((fn, t["line"], -1 if d[3]["vname"] == "Less" else 1))
        for tg in P.callee_targets(t):
            g = P.fns.get(tg)
            if g is not None and g.crate in LIB_CRATES and (g.kind == "closure" or not g.impl):
                _scan_cmp(P, g, depth - 1, seen, partial, defaults)
        for a in t["args"]:
            ol = op_local(a)
            if ol:
                tyj = P.local_tyj(fn, ol[0])
                if tyj["k"] == "closure" and tyj["id"] in P.fns:
                    _scan_cmp(P, P.fns[tyj["id"]], depth - 1, seen, partial, defaults)


# ---------------------------------------------------------------------------------------
# R-EQONLY: element identity is decided by Liquid equality, never by a rendering / hash

EQONLY = {
    "<liquid_lib::stdlib::filters::array::UniqFilter as liquid_core::parser::filter::Filter>::evaluate":
        "uniq drops exactly the elements equal (==) to an earlier kept one",
    "<liquid_lib::stdlib::blocks::case_block::CaseOption>::evaluate": "case/when matches by ==",
    "<liquid_lib::stdlib::filters::array::WhereFilter as liquid_core::parser::filter::Filter>::evaluate": "where keeps exactly the objects whose property == target",
}
FORBID_IDENTITY = ("to_kstr", "render", "source", "to_string", "hash", "type_name")
FORBID_KIND_DISPATCH = ("as_scalar", "is_scalar", "as_array", "is_array", "as_object", "is_object", "as_state", "is_state", "is_nil",
                        "query_state", "to_integer", "to_float")
KIND_DISPATCH_FORBIDDEN_IN = ("<liquid_lib::stdlib::blocks::case_block::CaseOption>::evaluate",)
FORBID_SETS = ("HashSet", "HashMap", "BTreeSet", "BTreeMap")


def run_eqonly(P, rep, rule="R-EQONLY"):
    for key, why in sorted(EQONLY.items()):
        fns = P.by_key(key)
        if len(fns) != 1:
            rep.anchor_missing(rule, key)
            continue
        root = fns[0]
        bad = []
        eqs = 0
        for fn, _ in SelfOrigins(P, root, seed={}).all_bodies():
            for bi, t in P.calls(fn):
                f = t.get("f")
                if not f:
                    continue
                last = f["id"].rsplit("::", 1)[1]
                if f["id"] == "core::cmp::PartialEq::eq" and "self_ty" in f and "ValueViewCmp" in P.tstr(fn.crate, f["self_ty"]) + str(
                        [P.tstr(fn.crate, a) for a in f["args"] if isinstance(a, int)]):
                    eqs += 1
                if last in FORBID_IDENTITY and (f.get("trait", "").endswith(("ValueView", "ToString", "Hash"))):
                    bad.append((fn, t["line"], f["name"]))
                if key in KIND_DISPATCH_FORBIDDEN_IN and last in FORBID_KIND_DISPATCH and (
                        f.get("trait", "").endswith("ValueView") or "ScalarCow" in f["name"]):
                    bad.append((fn, t["line"], f["name"]))
                if any(x in f["name"] for x in FORBID_SETS) and last in ("insert", "contains", "contains_key", "get", "entry"):
                    bad.append((fn, t["line"], f["name"]))
        site = root.key.split(" as ")[0].lstrip("<").rsplit("::", 1)[-1] + "::evaluate"
        if bad:
            for fn, line, nm in bad:
                rep.viol(rule, "%s uses %s" % (site, nm.rsplit("::", 2)[-2] + "::" + nm.rsplit("::", 1)[-1]), P.where(fn, line),
                         "element identity is decided through `%s` (a rendering/hash), not Liquid equality: %s" % (nm, why))
        elif eqs == 0:
            rep.viol(rule, site + " no-eq", P.where(root), "no ValueViewCmp equality found: %s" % why)
        else:
            rep.ok(rule, site, P.where(root), "identity decided by ValueViewCmp == only (%d comparison sites)" % eqs)


# ---------------------------------------------------------------------------------------
# R-CONTAINS: `contains` on an array is membership under the value model's equality

def run_contains(P, rep, rule="R-CONTAINS"):
    """In contains_check the region selected by `a.as_array()` being Some decides membership by ValueViewCmp == only:
    it never looks at a string rendering (to_kstr / to_string / str ==) of the needle or of an element."""
    fn = P.fn_by_key("liquid_lib::stdlib::blocks::if_block::contains_check")
    site = "contains_check array branch"
    asarr = [(bi, t) for bi, t in P.calls(fn) if t.get("f") and t["f"]["id"].endswith("ValueView::as_array")]
    if len(asarr) != 1:
        rep.viol(rule, site, P.where(fn), "expected one as_array() probe, found %d" % len(asarr))
        return
    bi, t = asarr[0]
    d = t["d"][0]
    some = none = None
    cur = t["t"]
    for _ in range(6):
        b = fn.blocks[cur]
        tt = b["t"]
        if tt["k"] == "switch":
            ol = op_local(tt["o"])
            if any(st[0] == "a" and ol and st[1][0] == ol[0] and st[2]["k"] == "discr" and st[2]["p"][0] == d for st in b["s"]):
                some = [tb for v, tb in tt["t"] if v == 1] or [tt["else"]]
                none = [tb for v, tb in tt["t"] if v == 0] or [tt["else"]]
            break
        cur = tt.get("t") if tt["k"] in ("goto", "drop") else None
        if cur is None:
            break
    if some is None:
        rep.viol(rule, site, P.where(fn), "no branch on the as_array() probe")
        return
    region = P.reach(fn, some) - P.reach(fn, none)
    bodies = [(fn, region)]
    for b2 in region:
        for st in fn.blocks[b2]["s"]:
            if st[0] == "a" and st[2]["k"] == "agg" and st[2].get("ak") == "closure" and st[2]["id"] in P.fns:
                c = P.fns[st[2]["id"]]
                bodies.append((c, set(range(len(c.blocks)))))
    eqs = 0
    bad = []
    for body, reg in bodies:
        for b2, t2 in P.calls(body):
            if b2 not in reg or not t2.get("f"):
                continue
            f = t2["f"]
            last = f["id"].rsplit("::", 1)[1]
            st_ = P.tstr(body.crate, f["self_ty"]) if "self_ty" in f else ""
            if f["id"] in ("core::cmp::PartialEq::eq", "core::cmp::PartialEq::ne"):
                if "ValueViewCmp" in st_:
                    eqs += 1
                else:
                    bad.append((body, t2["line"], "== on %s" % (st_ or "?")))
            elif last in ("to_kstr", "to_string", "render", "source", "to_lowercase") and (f.get("trait", "").endswith(("ValueView", "ToString")) or "ScalarCow" in f["name"]):
                bad.append((body, t2["line"], f["name"]))
    if bad:
        for body, line, what in bad[:4]:
            rep.viol(rule, site + " uses " + what.rsplit("::", 1)[-1], P.where(body, line),
                     "array membership is decided through %s, not the value model's equality (ValueViewCmp ==): `contains` would disagree with `==`" % what)
    elif eqs == 0:
        rep.viol(rule, site + " no-eq", P.where(fn), "no ValueViewCmp equality in the array branch of contains_check")
    else:
        rep.ok(rule, site, P.where(fn), "membership by ValueViewCmp == (%d site), no string rendering in the array branch" % eqs)


# ---------------------------------------------------------------------------------------
# R-ORIENT: every ordering call in scalar_cmp compares (something of lhs) with (something of rhs), in that order

def _sides(P, fn):
    """local -> subset of {1, 2}: which parameter's value can flow into it (the scrutinee tuple is split by field)."""
    tup = {}
    for b in fn.blocks:
        for st in b["s"]:
            if st[0] == "a" and st[2]["k"] == "agg" and st[2].get("ak") == "tuple" and not st[1][1]:
                tup[st[1][0]] = [op_local(o)[0] if op_local(o) else None for o in st[2]["ops"]]
    side = {1: {1}, 2: {2}}

    def of_place(pl):
        base, proj = pl[0], pl[1]
        if base in tup:
            for p in proj:
                if p[0] == "f":
                    src = tup[base][p[1]] if p[1] < len(tup[base]) else None
                    return set(side.get(src, set())) if src is not None else set()
        return set(side.get(base, set()))

    changed = True
    while changed:
        changed = False
        for b in fn.blocks:
            for st in b["s"]:
                if st[0] != "a":
                    continue
                d, rv = st[1][0], st[2]
                if d in tup and not st[1][1]:
                    continue
                new = set()
                for k in ("o", "a", "b"):
                    if k in rv and isinstance(rv[k], list) and op_local(rv[k]):
                        ol = op_local(rv[k])
                        new |= of_place([ol[0], ol[1]])
                if "p" in rv:
                    new |= of_place(rv["p"])
                for o in rv.get("ops", []):
                    ol = op_local(o)
                    if ol:
                        new |= of_place([ol[0], ol[1]])
                if not new <= side.get(d, set()):
                    side.setdefault(d, set()).update(new)
                    changed = True
            t = b["t"]
            if t["k"] == "call" and not t["d"][1]:
                new = set()
                for a in t["args"]:
                    ol = op_local(a)
                    if ol:
                        new |= of_place([ol[0], ol[1]])
                d = t["d"][0]
                if not new <= side.get(d, set()):
                    side.setdefault(d, set()).update(new)
                    changed = True
    return side, of_place


def run_cmp_orientation(P, rep, rule="R-ORIENT"):
    fn = P.fn_by_key(CORE_FNS["scalar_cmp"])
    side, of_place = _sides(P, fn)
    n = 0
    for bi, t in P.calls(fn):
        f = t.get("f")
        if not f or f["id"].rsplit("::", 1)[1] not in ("partial_cmp", "cmp") or len(t["args"]) < 2:
            continue
        r, a = op_local(t["args"][0]), op_local(t["args"][1])
        if not r or not a:
            continue
        sr, sa = of_place([r[0], r[1]]), of_place([a[0], a[1]])
        site = "scalar_cmp %s#%d" % (f["id"].rsplit("::", 1)[1], n)
        n += 1
        # does the result pass through Ordering::reverse before it is returned?
        rev = False
        holders = {t["d"][0]}
        for b2, t2 in P.calls(fn):
            a0 = op_local(t2["args"][0]) if t2.get("args") else None
            if a0 and a0[0] in holders and t2.get("f"):
                last = t2["f"]["id"].rsplit("::", 1)[1]
                if last == "reverse" or (last == "map" and any(x[0] == "k" and isinstance(x[1], dict) and "reverse" in str(x[1].get("fn", "")) for x in t2["args"][1:])):
                    rev = True
        if sr == {2} and sa == {1} and not rev:
            rep.viol(rule, site, P.where(fn, t["line"]),
                     "this arm orders (rhs-derived).cmp(lhs-derived) without reversing the result: `a < b` and `b > a` disagree for these kinds")
        elif sr >= {1, 2} and sa >= {1, 2}:
            rep.viol(rule, site, P.where(fn, t["line"]),
                     "both operands of this ordering can come from either side (an or-pattern such as `(A(x), B(y)) | (B(y), A(x))` feeds one "
                     "`x.cmp(y)`): for one of the two alternatives the comparison runs rhs-against-lhs without being reversed")
        elif sr and sa and sr == sa and len(sr) == 1:
            rep.viol(rule, site, P.where(fn, t["line"]), "this arm compares one operand with itself (both sides derive from parameter %d)" % list(sr)[0])
        elif not sr or not sa:
            rep.ok(rule, site, P.where(fn, t["line"]), "operand origin not resolved (receiver %s, argument %s): not decided" % (sorted(sr), sorted(sa)))
        else:
            rep.ok(rule, site, P.where(fn, t["line"]), "receiver derives from %s, argument from %s (1 = lhs, 2 = rhs)%s" % (sorted(sr), sorted(sa), ", reversed" if rev else ""))


# ---------------------------------------------------------------------------------------
# R-NOIDENT: comparisons look at values, never at addresses

def run_no_identity(P, rep, rule="R-NOIDENT"):
    """value_eq, value_cmp, scalar_eq, scalar_cmp and every PartialEq/PartialOrd impl of the model types: no pointer identity test
    (ptr::eq, ptr::addr_eq, Arc/Rc::ptr_eq), no reference-to-raw-pointer conversion, no pointer-to-integer cast — the outcome of a
    comparison must not depend on whether the two operands happen to be the same object."""
    from origins import SelfOrigins
    roots = [P.fn_by_key(k) for k in CORE_FNS.values()]
    for im in P.impls_of("core::cmp::PartialEq") + P.impls_of("core::cmp::PartialOrd"):
        if im["crate"] != "liquid_core":
            continue
        for it in im["items"]:
            if it.get("is_fn") and it["id"] in P.fns:
                roots.append(P.fns[it["id"]])
    n = 0
    bad = []
    seen = set()
    for root in roots:
        for fn, _ in SelfOrigins(P, root, seed={}).all_bodies():
            if fn.id in seen:
                continue
            seen.add(fn.id)
            n += 1
            for bi, t in P.calls(fn):
                f = t.get("f")
                if not f:
                    continue
                nm = f["name"]
                last = f["id"].rsplit("::", 1)[1]
                if last in ("ptr_eq", "addr_eq") or nm.endswith("ptr::eq") or nm.endswith("ptr::addr_eq") or last in ("as_ptr", "addr", "expose_provenance"):
                    bad.append((fn, t["line"], nm))
            for b in fn.blocks:
                for st in b["s"]:
                    if st[0] != "a":
                        continue
                    rv = st[2]
                    if rv["k"] == "rawptr" and not fn.expn:
                        bad.append((fn, st[3] if len(st) > 3 else fn.line, "&raw / `as *const _`"))
                    elif rv["k"] == "cast" and ("PointerExposeProvenance" in rv["ck"] or "PointerExposeAddress" in rv["ck"]):
                        bad.append((fn, st[3] if len(st) > 3 else fn.line, "pointer-to-integer cast"))
    if bad:
        k = 0
        for fn, line, what in bad[:6]:
            rep.viol(rule, "%s %s#%d" % (fn.key, what.rsplit("::", 1)[-1], k), P.where(fn, line),
                     "a comparison function inspects object identity (%s): comparing a value with itself and with an equal copy can differ" % what)
            k += 1
    else:
        rep.ok(rule, "comparison bodies", "-", "%d comparison bodies (core functions, PartialEq/PartialOrd impls, their closures): none looks at addresses" % n)
    rep.count(rule + ".bodies", n)


# ---------------------------------------------------------------------------------------
# R-UNIQKEPT / R-ONESIDED / comparator purity

def run_uniq_kept(P, rep, rule="R-UNIQKEPT"):
    """uniq keeps an element iff no *kept* element equals it: the collection scanned with `any` is the very vector the
    survivors are pushed to (Liquid equality is not transitive, so scanning the input prefix instead gives another result)."""
    from origins import backward_slice
    from mirutil import copy_root
    fn = P.fn_by_key("<liquid_lib::stdlib::filters::array::UniqFilter as liquid_core::parser::filter::Filter>::evaluate")
    pushes = [t for bi, t in P.calls(fn) if t.get("f") and t["f"]["name"].endswith("Vec::<T, A>::push")]
    anys = [t for bi, t in P.calls(fn) if t.get("f") and t["f"]["id"].rsplit("::", 1)[1] in ("any", "all", "position", "find", "contains")]
    site = "uniq scans the kept vector"
    if not pushes or not anys:
        rep.viol(rule, site, P.where(fn), "uniq is not written as `for x { if !kept.iter().any(|k| k == x) { kept.push(x) } }` (push x%d, scans x%d): "
                 "it cannot be comparing against the elements kept so far" % (len(pushes), len(anys)))
        return

    def root_vec(op):
        ol = op_local(op)
        if not ol:
            return set()
        locs, _ = backward_slice(fn, ol[0])
        return {l for l in locs | {ol[0]} if P.local_ty(fn, l).startswith("alloc::vec::Vec<")}
    kept = set()
    for t in pushes:
        kept |= root_vec(t["args"][0])
    ok = any(root_vec(t["args"][0]) & kept for t in anys)
    if ok:
        rep.ok(rule, site, P.where(fn, anys[0]["line"]), "the vector scanned for an equal element is the one survivors are pushed to")
    else:
        rep.viol(rule, site, P.where(fn, anys[0]["line"]), "the scan for an equal element does not run over the vector of kept elements")


def run_one_sided(P, rep, rule="R-ONESIDED"):
    """value_eq / value_cmp: no result is decided after asking only ONE operand whether it is an array / an object — a return
    reachable from the Some-edge of `lhs.as_object()` must also have passed the Some-edge of `rhs.as_object()` (and vice versa);
    otherwise `a == b` and `b == a` can differ for an object/array against a non-collection."""
    from r_pair import return_blocks
    for nm in ("value_eq", "value_cmp"):
        fn = P.fn_by_key(CORE_FNS[nm])
        so = SelfOrigins(P, fn, seed={1: (1,), 2: (2,)})
        probes = {}
        for bi, t in P.calls(fn):
            f = t.get("f")
            if f and f.get("trait", "").endswith("ValueView") and f["id"].rsplit("::", 1)[1] in ("as_array", "as_object") and t["args"]:
                ol = op_local(t["args"][0])
                o = so.place_origin([ol[0], ol[1]]) if ol else None
                if o and o[0] in (1, 2):
                    probes.setdefault(f["id"].rsplit("::", 1)[1], {})[o[0]] = (bi, t)
        rets = set(return_blocks(fn))
        for kind, sides in sorted(probes.items()):
            site = "%s %s" % (nm, kind)
            if set(sides) != {1, 2}:
                rep.viol(rule, site, P.where(fn), "only one operand is asked %s()" % kind)
                continue
            some = {}
            for side, (bi, t) in sides.items():
                d = t["d"][0]
                edge = None
                for b2, blk in enumerate(fn.blocks):
                    tt = blk["t"]
                    if tt["k"] != "switch":
                        continue
                    ol = op_local(tt["o"])
                    for st in blk["s"]:
                        if st[0] == "a" and ol and st[1][0] == ol[0] and st[2]["k"] == "discr":
                            pl = st[2]["p"]
                            base_ok = pl[0] == d and not any(p_[0] == "f" for p_ in pl[1])
                            if not base_ok and pl[0] in _tuple_fields(fn):
                                fs = [p_[1] for p_ in pl[1] if p_[0] == "f"]
                                tf = _tuple_fields(fn)[pl[0]]
                                base_ok = bool(fs) and fs[0] < len(tf) and tf[fs[0]] == d
                            if base_ok:
                                edge = (b2, [tb for v, tb in tt["t"] if v == 1] or [tt["else"]])
                some[side] = edge
            if None in some.values():
                rep.ok(rule, site, P.where(fn), "probe results are not matched by discriminant here: not decided")
                continue
            bad = None
            for side in (1, 2):
                other = 3 - side
                sw_a, some_a = some[side]
                sw_b, some_b = some[other]
                if sw_b not in P.reach(fn, some_a):
                    continue  # the other operand's test is not nested under this one's Some edge
                ta, tb_ = fn.blocks[sw_a]["t"], fn.blocks[sw_b]["t"]
                none_a = [x for v, x in ta["t"] if v == 0] or [ta["else"]]
                none_b = [x for v, x in tb_["t"] if v == 0] or [tb_["else"]]
                # blocks that run only when THIS operand is a collection and the OTHER is not
                exclusive = P.reach(fn, none_b) - P.reach(fn, none_a)
                decided = sorted(b for b in exclusive if any(st[0] == "a" and st[1][0] == 0 and not st[1][1] for st in fn.blocks[b]["s"]))
                if decided:
                    bad = (side, decided[0])
            if bad:
                rep.viol(rule, site, P.where(fn), "a result is decided after asking only the %s operand whether it is %s: equality/ordering of a collection "
                         "against a non-collection depends on the argument order" % ("left" if bad[0] == 1 else "right", kind.replace("as_", "an ")))
            else:
                rep.ok(rule, site, P.where(fn), "no result is decided on one operand's %s() alone" % kind)


def _tuple_fields(fn, _cache={}):
    if fn.id in _cache:
        return _cache[fn.id]
    out = {}
    for b in fn.blocks:
        for st in b["s"]:
            if st[0] == "a" and st[2]["k"] == "agg" and st[2].get("ak") == "tuple" and not st[1][1]:
                out[st[1][0]] = [op_local(o)[0] if op_local(o) else None for o in st[2]["ops"]]
    _cache[fn.id] = out
    return out


def _tuple_sources(fn, _cache={}):
    if fn.id in _cache:
        return _cache[fn.id]
    out = {}
    for b in fn.blocks:
        for st in b["s"]:
            if st[0] == "a" and st[2]["k"] == "agg" and st[2].get("ak") == "tuple" and not st[1][1]:
                out[st[1][0]] = {op_local(o)[0] for o in st[2]["ops"] if op_local(o)}
    _cache[fn.id] = out
    return out


def run_sort_purity(P, rep, rule="R-SORTPURE"):
    """The comparators of the array filters' sorts order liquid values through the value model only: no to_float / to_integer /
    type_name / total_cmp inside the comparator pipeline (otherwise `sort` and `<` can disagree)."""
    n = 0
    for fn in sorted(P.fns.values(), key=lambda f: f.id):
        if fn.crate not in LIB_CRATES or "::test" in fn.id or not _is_array_filter(fn):
            continue
        k = 0
        for bi, t in P.calls(fn):
            f = t.get("f")
            if not f or f["id"].rsplit("::", 1)[1] not in ("sort_by", "sort_unstable_by", "sort_by_key", "sort_by_cached_key"):
                continue
            n += 1
            site = "%s %s#%d" % (fn.key, f["id"].rsplit("::", 1)[1], k)
            k += 1
            hits = []
            for a in t["args"][1:]:
                ol = op_local(a)
                if ol:
                    tyj = P.local_tyj(fn, ol[0])
                    if tyj["k"] == "closure" and tyj["id"] in P.fns:
                        hits += _pipeline_hits(P, P.fns[tyj["id"]], 3, set(), lambda P_, f_, c_: c_["id"].rsplit("::", 1)[1] in ("to_float", "to_integer", "to_bool", "type_name", "total_cmp")
                                               and ("ScalarCow" in c_["name"] or c_.get("trait", "").endswith("ValueView") or "f64" in c_["name"]))
            if hits:
                rep.viol(rule, site, P.where(fn, t["line"]), "the comparator converts/classifies values itself (%s): sort order and `<` can disagree" % sorted(set(hits))[0])
            else:
                rep.ok(rule, site, P.where(fn, t["line"]), "comparator orders through the value model only")
    rep.count(rule + ".sorts", n)
