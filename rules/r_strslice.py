"""R-STRSLICE: every byte-range index into a str/String uses bounds that are provably on
character boundaries (so slicing cannot split a character and panic)."""
from mirutil import op_local, defs_of

RANGE_ADTS = ("core::ops::range::Range", "core::ops::range::RangeTo", "core::ops::range::RangeFrom",
              "core::ops::range::RangeInclusive", "core::ops::range::RangeToInclusive", "core::ops::range::RangeFull")


def str_index_sites(P, fn):
    out = []
    for bi, t in P.calls(fn):
        f = t.get("f")
        if not f or f["id"] not in ("core::ops::index::Index::index", "core::ops::index::IndexMut::index_mut"):
            continue
        st = P.tstr(fn.crate, f["self_ty"]) if "self_ty" in f else ""
        if st not in ("str", "alloc::string::String"):
            continue
        out.append((bi, t))
    return out


def range_bounds(P, fn, t):
    """[(bound name, operand, inclusive)] of the range argument of an index call."""
    ol = op_local(t["args"][1])
    if not ol:
        return None
    ds = defs_of(fn, ol[0])
    res = []
    for kind, bi, si, d in ds:
        if kind == "a" and d["k"] == "agg" and d.get("id") in RANGE_ADTS:
            nm = d["id"].rsplit("::", 1)[1]
            ops = d["ops"]
            if nm == "Range":
                res += [("start", ops[0], False), ("end", ops[1], False)]
            elif nm == "RangeTo":
                res += [("end", ops[0], False)]
            elif nm == "RangeFrom":
                res += [("start", ops[0], False)]
            elif nm == "RangeToInclusive":
                res += [("end", ops[0], True)]
            elif nm == "RangeInclusive":
                res += [("start", ops[0], False), ("end", ops[1], True)]
        elif kind == "c" and d.get("f") and d["f"]["name"].endswith("RangeInclusive::<Idx>::new"):
            res += [("start", d["args"][0], False), ("end", d["args"][1], True)]
        elif kind == "a" and d["k"] == "use":
            # moved range temp
            o2 = op_local(d["o"])
            if o2:
                t2 = {"args": [None, ["m", [o2[0], []]]]}
                r2 = range_bounds(P, fn, t2)
                if r2:
                    res += r2
    return res or None


class BoundCheck:
    def __init__(self, P, fn, site_block):
        self.P = P
        self.fn = fn
        self.site = site_block
        self.why = []

    def safe_operand(self, op, depth=0):
        if op[0] == "k":
            v = op[1].get("val")
            if v == 0:
                return True
            self.why.append("constant bound %s" % v)
            return "const"
        ol = op_local(op)
        if not ol:
            return False
        if ol[1]:
            return self.safe_place(ol, depth)
        return self.safe_local(ol[0], depth)

    def char_is_at(self, idx_op, char_op):
        from origins import backward_slice
        from mirutil import copy_root
        fn, P = self.fn, self.P
        ia, ca = op_local(idx_op), op_local(char_op)
        if not ia or not ca:
            return False
        iroot = copy_root(fn, ia[0])
        # (i, c) read from the same (usize, char) tuple
        def tuple_src(l, field):
            for kind, bi, si, d in defs_of(fn, l):
                if kind == "a" and d["k"] in ("use", "ref"):
                    pl = op_local(d["o"]) if d["k"] == "use" else (d["p"][0], d["p"][1])
                    if pl and any(p[0] == "f" and p[1] == field for p in pl[1]) and "(usize, char)" in P.local_ty(fn, pl[0]):
                        return pl[0]
            return None
        if ia[1] or ca[1]:
            bi_, bc_ = ia, ca
            if any(p[0] == "f" and p[1] == 0 for p in bi_[1]) and any(p[0] == "f" and p[1] == 1 for p in bc_[1]) and bi_[0] == bc_[0]:
                return True
        ti = tuple_src(ia[0], 0) if len(defs_of(fn, ia[0])) == 1 else None
        croot = ca[0]
        for _ in range(4):
            ds = defs_of(fn, croot)
            if len(ds) == 1 and ds[0][0] == "a" and ds[0][3]["k"] == "ref" and not ds[0][3]["p"][1]:
                croot = ds[0][3]["p"][0]
            else:
                break
        tc = tuple_src(croot, 1) if len(defs_of(fn, croot)) == 1 else None
        if ti is not None and ti == tc:
            return True
        # c (or the Option<char>) comes from s[i..].chars().next()
        locs, calls = backward_slice(fn, ca[0])
        for c in calls:
            f = c.get("f")
            if not f or f["id"].rsplit("::", 1)[1] != "index" or len(c["args"]) < 2:
                continue
            rl = op_local(c["args"][1])
            for kind, bi, si, d in (defs_of(fn, rl[0]) if rl else []):
                if kind == "a" and d["k"] == "agg" and d.get("ops"):
                    o0 = op_local(d["ops"][0])
                    if o0 and (copy_root(fn, o0[0]) == iroot or o0[0] == ia[0]):
                        return True
        return False

    def safe_place(self, ol, depth):
        base, proj = ol
        ty = self.P.local_ty(self.fn, base)
        # item of char_indices(): (usize, char).0, possibly behind Option/&
        if any(p[0] == "f" and p[1] == 0 for p in proj) and "(usize, char)" in ty:
            return True
        if all(p[0] == "d" for p in proj):
            return self.safe_local(base, depth)
        if ty == "(usize, bool)" and len(proj) == 1 and proj[0][0] == "f" and proj[0][1] == 0:
            return self.safe_local(base, depth)  # value half of a checked add/sub
        # closure upvar or struct field: unknown
        self.why.append("bound read from a projection of %s" % ty)
        return False

    def safe_local(self, l, depth, seen=None):
        if depth > 12:
            self.why.append("definition chain too deep")
            return False
        seen = seen or set()
        if l in seen:
            return True
        seen = seen | {l}
        ds = defs_of(self.fn, l)
        if not ds:
            # parameter / closure upvar
            ty = self.P.local_ty(self.fn, l)
            self.why.append("bound is a parameter/upvar of type %s" % ty)
            return False
        ok = True
        for kind, bi, si, d in ds:
            r = self.safe_def(kind, bi, d, l, depth, seen)
            if r is not True:
                ok = r if ok is True else ok
                if r is False:
                    return False
        return ok

    def safe_def(self, kind, bi, d, l, depth, seen):
        P, fn = self.P, self.fn
        if kind == "c":
            f = d.get("f")
            if not f:
                self.why.append("bound from an indirect call")
                return False
            last = f["id"].rsplit("::", 1)[1]
            nm = f["name"]
            if last == "len" and ("str" in nm or "String" in nm or "KString" in nm):
                return True
            if last in ("pos",) and "pest::" in nm:
                return True
            if last in ("find", "rfind") and ("core::str" in nm or "str>::" in nm or "String" in nm):
                return True
            if last in ("find", "rfind", "position", "rposition") and "Iterator" in f["id"]:
                # accept a search whose predicate asks is_char_boundary
                for a in d["args"][1:]:
                    ol = op_local(a)
                    if ol:
                        tyj = P.local_tyj(fn, ol[0])
                        if tyj["k"] == "closure" and tyj["id"] in P.fns:
                            cf = P.fns[tyj["id"]]
                            if any(t2.get("f") and t2["f"]["id"].endswith("::is_char_boundary") for b2, t2 in P.calls(cf)):
                                return True
                self.why.append("index search without an is_char_boundary predicate")
                return False
            if last in ("unwrap_or", "unwrap", "expect", "unwrap_or_default", "min", "max", "clone", "deref", "into", "from"):
                res = True
                for a in d["args"]:
                    r = self.safe_operand(a, depth + 1)
                    if r is False:
                        return False
                    if r == "const":
                        res = "const" if res is True else res
                return res
            if last == "len_utf8":
                return True
            self.why.append("bound computed by `%s`" % nm)
            return False
        k = d["k"]
        if k in ("use", "cast"):
            return self.safe_operand(d["o"], depth + 1)
        if k == "ref":
            pl = d["p"]
            return self.safe_place((pl[0], pl[1]), depth + 1) if pl[1] else self.safe_local(pl[0], depth + 1, seen)
        if k == "bin":
            op = d["op"].replace("WithOverflow", "")
            if op == "Add":
                a, b = d["a"], d["b"]
                ra = self.safe_operand(a, depth + 1)
                if ra is False:
                    return False
                # + len_utf8()
                lb = op_local(b)
                if lb:
                    dsb = defs_of(fn, lb[0])
                    is_len = len(dsb) == 1 and dsb[0][0] == "c" and dsb[0][3].get("f") and dsb[0][3]["f"]["id"].endswith("::len_utf8")
                    # map_or(0, char::len_utf8) etc.
                    is_map = (len(dsb) == 1 and dsb[0][0] == "c" and dsb[0][3].get("f") and dsb[0][3]["f"]["id"].rsplit("::", 1)[1] in ("map_or", "unwrap_or", "map")
                              and any(a2[0] == "k" and "fn" in a2[1] and a2[1]["fn"]["id"].endswith("::len_utf8") for a2 in dsb[0][3]["args"]))
                    if is_len or is_map:
                        # `i + c.len_utf8()` is the next boundary only if c is the character that starts at i
                        if self.char_is_at(a, dsb[0][3]["args"][0]):
                            return True
                        self.why.append("`i + c.len_utf8()` where c is not provably the character that starts at i (it must come from `s[i..].chars().next()` "
                                        "or be the char of the same char_indices item as i)")
                        return False
                if b[0] == "k" and b[1].get("val") == 1:
                    if ascii_guarded(P, fn, bi):
                        return True
                    self.why.append("`index + 1` without proof that the character at index is ASCII")
                    return False
                self.why.append("bound is a sum with a non-length operand")
                return False
            if op == "Sub":
                self.why.append("bound computed by subtraction")
                return False
            self.why.append("bound computed by %s" % op)
            return False
        if k == "agg" and d.get("ak") == "tuple":
            # (value, overflowed) pair of a checked add
            return all(self.safe_operand(o, depth + 1) is not False for o in d["ops"][:1])
        self.why.append("bound defined by %s" % k)
        return False


def ascii_guarded(P, fn, bi):
    """Block bi is reachable only through explicit ASCII-valued targets of a switch on a char."""
    for ci, b in enumerate(fn.blocks):
        t = b["t"]
        if t["k"] != "switch" or ci == bi or not P.dominates(fn, ci, bi):
            continue
        ol = op_local(t["o"])
        if not ol or P.local_ty(fn, ol[0]) != "char":
            continue
        vals = [v for v, tb in t["t"]]
        if not vals or any(v >= 128 for v in vals):
            continue
        if bi in P.reach(fn, [t["else"]], stop={ci}):
            continue
        return True
    return False


def indexed_string_is_const_table(P, fn, t):
    """The sliced string comes from a const/static table (ASCII names), not from user data."""
    from origins import backward_slice
    ol = op_local(t["args"][0])
    if not ol:
        return False
    locs, calls = backward_slice(fn, ol[0])
    for l in locs:
        for kind, bi, si, d in defs_of(fn, l):
            if kind == "a" and d["k"] == "use" and d["o"][0] == "k" and ("uneval" in d["o"][1] or "str" in d["o"][1]):
                return True
    return False


def quoted_bounds_problem(P, fn, bounds):
    """The grammar obligation 'first and last byte are ASCII quotes' justifies exactly start = 1 and end = str::len() - 1."""
    got = {nm: op for nm, op, incl in bounds if not incl}
    if set(got) != {"start", "end"}:
        return "expected an exclusive range with both bounds"
    st, en = got["start"], got["end"]
    if not (st[0] == "k" and isinstance(st[1], dict) and st[1].get("val") == 1):
        ol = op_local(st)
        ds = defs_of(fn, ol[0]) if ol else []
        if not (len(ds) == 1 and ds[0][0] == "a" and ds[0][3]["k"] == "use" and ds[0][3]["o"][0] == "k" and ds[0][3]["o"][1].get("val") == 1):
            return "start bound is not the constant 1"
    ol = op_local(en)
    cur = ol[0] if ol else None
    for _ in range(6):
        if cur is None:
            break
        ds = defs_of(fn, cur)
        if len(ds) != 1 or ds[0][0] != "a":
            break
        rv = ds[0][3]
        if rv["k"] == "use" and op_local(rv["o"]):
            cur = op_local(rv["o"])[0]
            continue
        if rv["k"] == "bin" and rv["op"].replace("WithOverflow", "") == "Sub" and rv["b"][0] == "k" and rv["b"][1].get("val") == 1:
            la = op_local(rv["a"])
            c2 = la[0] if la else None
            for _ in range(4):
                d2 = defs_of(fn, c2) if c2 is not None else []
                if len(d2) == 1 and d2[0][0] == "a" and d2[0][3]["k"] == "use" and op_local(d2[0][3]["o"]):
                    c2 = op_local(d2[0][3]["o"])[0]
                    continue
                if len(d2) == 1 and d2[0][0] == "c":
                    f = d2[0][3].get("f")
                    if f and f["id"].rsplit("::", 1)[1] == "len" and ("str" in f["name"] or "String" in f["name"]):
                        return None
                    return "end bound is `%s(..) - 1`, not the byte length minus one" % (f["name"] if f else "?")
                break
            return "end bound does not come from str::len()"
        break
    return "end bound is not `len() - 1`"


def run(P, rep, fns, ledger=None, rule="R-STRSLICE"):
    ledger = ledger or {}
    n = 0
    for fn in fns:
        ordn = 0
        for bi, t in str_index_sites(P, fn):
            site = "%s str-slice#%d" % (fn.key, ordn)
            ordn += 1
            n += 1
            where = P.where(fn, t["line"])
            bounds = range_bounds(P, fn, t)
            if bounds is None:
                if site in ledger:
                    rep.ok(rule, site, where, "ledger %s: %s" % ledger[site])
                else:
                    rep.viol(rule, site, where, "string indexed by something other than a recognisable range")
                continue
            problems = []
            notes = []
            for nm, op, incl in bounds:
                bc = BoundCheck(P, fn, bi)
                r = bc.safe_operand(op)
                if incl and r is not False:
                    problems.append("inclusive end bound `..=%s`: the byte after the bound may be inside a character" % nm)
                    continue
                if r is True:
                    notes.append("%s: boundary" % nm)
                elif r == "const":
                    if indexed_string_is_const_table(P, fn, t):
                        notes.append("%s: constant within a constant ASCII table" % nm)
                    else:
                        problems.append("%s bound is a non-zero constant applied to non-constant text" % nm)
                else:
                    problems.append("%s bound is not provably on a character boundary (%s)" % (nm, "; ".join(bc.why[:2]) or "unknown source"))
            if problems and site in ledger:
                cls, reason = ledger[site]
                if cls.endswith(":quoted"):
                    bad_q = quoted_bounds_problem(P, fn, bounds)
                    if bad_q:
                        rep.viol(rule, site, where, "the slice that strips the quotes is no longer `[1 .. len() - 1]` (%s): the grammar fact only justifies "
                                 "those two byte offsets" % bad_q)
                        continue
                rep.ok(rule, site, where, "ledger %s: %s" % (cls, reason))
                rep.trusted.add("ledger/panic_sites.tsv: " + site)
            elif problems:
                for p in problems:
                    rep.viol(rule, site, where, p + " — slicing can split a multi-byte character and panic")
            else:
                rep.ok(rule, site, where, "; ".join(notes))
    rep.analysed[rule + ".sites"] = rep.analysed.get(rule + ".sites", 0) + n
