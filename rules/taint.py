"""Interprocedural, flow-insensitive tag propagation over MIR locals (used by R-ARITH, R-UNIT).

A tag set is attached to whole locals.  Sources, sanitizers and pass-through callees are given
by the client.  Workspace callees are handled with parameter/return summaries iterated to a
fixed point over the call graph; closures get their parameters from the adapter that invokes
them and their upvars from the captured operands.
"""
from mirutil import op_local

PASS_THROUGH_LAST = {
    # std adapters whose result carries the receiver's / argument's value
    "map", "and_then", "unwrap_or", "unwrap_or_else", "unwrap_or_default", "ok_or", "ok_or_else", "ok", "err", "unwrap", "expect",
    "branch", "from_residual", "from", "into", "try_into", "try_from", "clone", "cloned", "copied", "to_owned", "as_ref", "as_mut",
    "deref", "borrow", "filter", "or", "or_else", "xor", "take", "replace", "get_or_insert", "map_err", "transpose", "flatten",
    "abs", "neg", "wrapping_neg", "unsigned_abs", "max", "min", "clamp", "map_or", "map_or_else", "zip", "unzip",
    "into_result", "into_owned", "to_integer", "context_key", "context_key_with", "value", "value_with", "trace", "trace_with",
}
CLOSURE_ADAPTERS = {"map", "and_then", "filter", "map_or", "map_or_else", "is_some_and",
                    "is_ok_and", "for_each", "any", "all", "find", "position", "fold", "filter_map", "take_while", "skip_while", "inspect"}


class Taint:
    def __init__(self, P, crates, source_call, source_field=None, sanitize_call=None, extra_pass=None):
        """source_call(fn, t) -> set of tags for the destination of call terminator t (or empty);
        source_field(fn, place, tystr) -> tags for a field read; sanitize_call(fn, t) -> True if
        the call's result must be considered clean."""
        self.P = P
        self.crates = crates
        self.source_call = source_call
        self.source_field = source_field
        self.sanitize_call = sanitize_call or (lambda fn, t: False)
        self.extra_pass = extra_pass or set()
        self.loc = {}  # fn id -> {local: set(tags)}
        self.param_in = {}  # fn id -> {param local: tags}
        self.ret = {}  # fn id -> tags
        self.fns = [f for f in P.fns.values() if f.crate in crates]
        self._closure_parent = {}
        self.solve()

    def tags_of_operand(self, fid, op):
        ol = op_local(op)
        if not ol:
            return set()
        return self.loc[fid].get(ol[0], set())

    def solve(self):
        P = self.P
        for fn in self.fns:
            self.loc[fn.id] = {}
            self.param_in[fn.id] = {}
            self.ret[fn.id] = set()
        changed = True
        rounds = 0
        while changed and rounds < 40:
            changed = False
            rounds += 1
            for fn in self.fns:
                if self._solve_fn(fn):
                    changed = True
        self.rounds = rounds

    def _add(self, fid, local, tags):
        if not tags:
            return False
        cur = self.loc[fid].setdefault(local, set())
        n = len(cur)
        cur |= tags
        return len(cur) != n

    def _solve_fn(self, fn):
        P = self.P
        fid = fn.id
        ch = False
        for l, tg in self.param_in[fid].items():
            ch |= self._add(fid, l, tg)
        inner = True
        while inner:
            inner = False
            for b in fn.blocks:
                for st in b["s"]:
                    if st[0] != "a":
                        continue
                    lhs, rv = st[1], st[2]
                    tags = set()
                    k = rv["k"]
                    if k in ("use", "cast", "repeat"):
                        tags |= self.tags_of_operand(fid, rv["o"])
                        ol = op_local(rv["o"])
                        if ol and ol[1] and self.source_field:
                            tags |= self.source_field(fn, [ol[0], ol[1]])
                    elif k in ("ref", "rawptr", "discr"):
                        if k != "discr":
                            tags |= self.loc[fid].get(rv["p"][0], set())
                            if rv["p"][1] and self.source_field:
                                tags |= self.source_field(fn, rv["p"])
                    elif k == "bin":
                        if rv["op"] in ("Div", "Rem", "Shr", "BitAnd"):
                            # magnitude of the result is bounded by the left operand
                            tags |= self.tags_of_operand(fid, rv["a"])
                        elif rv["op"] not in ("Eq", "Ne", "Lt", "Le", "Gt", "Ge", "Cmp"):
                            tags |= self.tags_of_operand(fid, rv["a"]) | self.tags_of_operand(fid, rv["b"])
                    elif k == "un":
                        tags |= self.tags_of_operand(fid, rv["a"])
                    elif k == "agg":
                        for o in rv["ops"]:
                            tags |= self.tags_of_operand(fid, o)
                        if rv.get("ak") == "closure":
                            cf = P.fns.get(rv["id"])
                            if cf is not None and cf.id in self.loc:
                                # upvar k of the closure = field k of its environment (_1)
                                ut = set()
                                for o in rv["ops"]:
                                    ut |= self.tags_of_operand(fid, o)
                                if ut:
                                    cur = self.param_in[cf.id].setdefault(1, set())
                                    if not ut <= cur:
                                        cur |= ut
                                        ch = True
                    if tags and self._add(fid, lhs[0], tags):
                        inner = True
                        ch = True
                t = b["t"]
                if t["k"] != "call":
                    continue
                f = t.get("f")
                d = t["d"][0]
                tags = set()
                if f:
                    tags |= self.source_call(fn, t)
                    if self.sanitize_call(fn, t):
                        continue
                    last = f["id"].rsplit("::", 1)[1]
                    targets = [x for x in P.callee_targets(t) if x in self.loc]
                    if targets:
                        for tg in targets:
                            g = P.fns[tg]
                            # arguments -> callee parameters
                            for i, a in enumerate(t["args"]):
                                at = self.tags_of_operand(fid, a)
                                if at:
                                    cur = self.param_in[tg].setdefault(i + 1, set())
                                    if not at <= cur:
                                        cur |= at
                                        ch = True
                            tags |= self.ret[tg]
                    elif last in PASS_THROUGH_LAST or last in self.extra_pass or not f["krate"].startswith("liquid"):
                        # extern callee: result carries the tags of its arguments if it is a known adapter
                        if last in PASS_THROUGH_LAST or last in self.extra_pass:
                            for a in t["args"]:
                                tags |= self.tags_of_operand(fid, a)
                    # closures handed to adapters: parameter 2.. get the receiver's tags
                    if last in CLOSURE_ADAPTERS and t["args"]:
                        rt = self.tags_of_operand(fid, t["args"][0])
                        for a in t["args"][1:]:
                            ol = op_local(a)
                            if not ol:
                                continue
                            tyj = P.local_tyj(fn, ol[0])
                            if tyj["k"] == "closure" and tyj["id"] in self.loc:
                                cid = tyj["id"]
                                if rt and P.fns[cid].argc >= 2:
                                    cur = self.param_in[cid].setdefault(2, set())
                                    if not rt <= cur:
                                        cur |= rt
                                        ch = True
                                tags |= self.ret[cid]
                if tags and self._add(fid, d, tags):
                    inner = True
                    ch = True
        r = self.loc[fid].get(0, set())
        if not r <= self.ret[fid]:
            self.ret[fid] |= r
            ch = True
        return ch
