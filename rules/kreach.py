"""Path-sensitive reachability with enum-variant / small-constant propagation.

After a private helper is expanded in place (inline.py), `helper(x)?` becomes: build Ok/Err in the
helper's blocks, jump to the caller's `Try::branch`, switch on the ControlFlow discriminant. Plain CFG
reachability joins the helper's Ok and Err exits at that jump, so "the Err exit leaves the function"
is lost. This walker carries, along each path, what is known about locals that hold a freshly built
enum value (its variant) or a constant, through moves, `discriminant()` and `Try::branch`, and follows
only the matching edge of a switch whose scrutinee is known. Unknown -> all edges (over-approximation,
i.e. it can only make a guard look weaker, never stronger). Locals that are ever mutably borrowed or
address-taken are not tracked.
"""
from mirutil import op_local

BRANCH = "core::ops::try_trait::Try::branch"
LIMIT = 20000


def _untrackable(fn):
    bad = set()
    for b in fn.blocks:
        for st in b["s"]:
            if st[0] == "a" and ((st[2]["k"] == "ref" and st[2].get("m")) or st[2]["k"] == "rawptr"):
                bad.add(st[2]["p"][0])
    return bad


def kreach(P, fn, start_blocks, facts=None, stop=()):
    """Blocks reachable from start_blocks; `facts` is an initial {local: ("variant", i) | ("const", c)}."""
    bad = _untrackable(fn)
    stop = set(stop)
    init = frozenset((facts or {}).items())
    seen = set()
    out = set()
    work = [(b, init) for b in start_blocks]
    while work:
        bi, fs = work.pop()
        if (bi, fs) in seen:
            continue
        if len(seen) > LIMIT:
            return out | P.reach(fn, [bi])
        seen.add((bi, fs))
        out.add(bi)
        if bi in stop:
            continue
        env = dict(fs)
        blk = fn.blocks[bi]
        for st in blk["s"]:
            if st[0] == "sdisc":
                env.pop(st[1][0], None)
                continue
            if st[0] != "a":
                continue
            d, rv = st[1], st[2]
            if d[1]:
                env.pop(d[0], None)
                continue
            val = None
            k = rv["k"]
            if k == "agg" and rv.get("ak") == "adt" and "variant" in rv:
                val = ("variant", rv["variant"])
            elif k == "use":
                ol = op_local(rv["o"])
                if ol and not ol[1]:
                    val = env.get(ol[0])
                elif rv["o"][0] == "k" and isinstance(rv["o"][1], dict) and isinstance(rv["o"][1].get("val"), int):
                    val = ("const", rv["o"][1]["val"])
            elif k == "discr" and not rv["p"][1]:
                v = env.get(rv["p"][0])
                if v and v[0] == "variant":
                    val = ("const", v[1])
            if val is not None and d[0] not in bad:
                env[d[0]] = val
            else:
                env.pop(d[0], None)
        t = blk["t"]
        k = t["k"]
        if k == "call":
            d = t["d"]
            val = None
            f = t.get("f")
            if f and f["id"] == BRANCH and t["args"] and "self_ty" in f:
                ol = op_local(t["args"][0])
                v = env.get(ol[0]) if ol and not ol[1] else None
                st_ = P.tstr(fn.crate, f["self_ty"])
                if v and v[0] == "variant":
                    if st_.startswith("core::result::Result"):
                        val = ("variant", 0 if v[1] == 0 else 1)  # Ok -> Continue, Err -> Break
                    elif st_.startswith("core::option::Option"):
                        val = ("variant", 0 if v[1] == 1 else 1)  # Some -> Continue, None -> Break
            if not d[1] and val is not None and d[0] not in bad:
                env[d[0]] = val
            else:
                env.pop(d[0], None)
            if t.get("t") is not None:
                work.append((t["t"], frozenset(env.items())))
        elif k == "switch":
            ol = op_local(t["o"])
            v = env.get(ol[0]) if ol and not ol[1] else None
            nfs = frozenset(env.items())
            if v and v[0] == "const":
                tgt = [tb for c, tb in t["t"] if c == v[1]]
                work.append(((tgt[0] if tgt else t["else"]), nfs))
            else:
                for c, tb in t["t"]:
                    work.append((tb, nfs))
                work.append((t["else"], nfs))
        elif k in ("goto", "drop", "assert"):
            work.append((t["t"], frozenset(env.items())))
    return out
