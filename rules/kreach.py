"""Path-sensitive reachability with enum-variant / small-constant propagation.

After a private helper is expanded in place (inline.py), `helper(x)?` becomes: build Ok/Err in the
helper's blocks, jump to the caller's `Try::branch`, switch on the ControlFlow discriminant. Plain CFG
reachability joins the helper's Ok and Err exits at that jump, so "the Err exit leaves the function"
is lost. This walker carries, along each path, what is known about locals that hold a freshly built
enum value (its variant) or a constant, through moves, `discriminant()` and `Try::branch`, and follows
only the matching edge of a switch whose scrutinee is known. Unknown -> all edges (over-approximation,
i.e. it can only make a guard look weaker, never stronger). Locals that are ever mutably borrowed or
address-taken are not tracked.
"""
from mirutil import op_local

BRANCH = "core::ops::try_trait::Try::branch"
LIMIT = 20000


def _untrackable(fn):
    bad = set()
    for b in fn.blocks:
        for st in b["s"]:
            if st[0] == "a" and ((st[2]["k"] == "ref" and st[2].get("m")) or st[2]["k"] == "rawptr"):
                bad.add(st[2]["p"][0])
    return bad


def kreach(P, fn, start_blocks, facts=None, stop=(), on_call=None):
    """Blocks reachable from start_blocks; `facts` is an initial {local: ("variant", i) | ("const", c)}.
    on_call(block, terminator, env) is invoked for every call reached, with what is known on that path."""
    bad = _untrackable(fn)
    refs = {}
    same_some = {}  # Option local -> Option local it was derived from by a Some-ness preserving adapter
    for b_ in fn.blocks:
        t_ = b_["t"]
        if t_["k"] == "call" and t_.get("f") and t_["args"] and not t_["d"][1] and "option::Option" in t_["f"]["name"] \
                and t_["f"]["id"].rsplit("::", 1)[1] in ("as_ref", "as_mut", "map", "as_deref", "as_deref_mut", "cloned", "copied", "inspect"):
            a0 = op_local(t_["args"][0])
            if a0 and not a0[1]:
                same_some[t_["d"][0]] = a0[0]
    for b_ in fn.blocks:
        for st_ in b_["s"]:
            if st_[0] == "a" and not st_[1][1] and st_[2]["k"] == "ref" and not st_[2]["p"][1] and not st_[2].get("m"):
                refs[st_[1][0]] = st_[2]["p"][0]
    stop = set(stop)
    init = frozenset((facts or {}).items())
    seen = set()
    out = set()
    work = [(b, init) for b in start_blocks]
    while work:
        bi, fs = work.pop()
        if (bi, fs) in seen:
            continue
        if len(seen) > LIMIT:
            return out | P.reach(fn, [bi])
        seen.add((bi, fs))
        out.add(bi)
        if bi in stop:
            continue
        env = dict(fs)
        discr_of = {}
        blk = fn.blocks[bi]
        for st in blk["s"]:
            if st[0] == "sdisc":
                env.pop(st[1][0], None)
                continue
            if st[0] != "a":
                continue
            d, rv = st[1], st[2]
            if d[1]:
                env.pop(d[0], None)
                continue
            val = None
            k = rv["k"]
            if k == "agg" and rv.get("ak") == "adt" and "variant" in rv:
                val = ("variant", rv["variant"])
            elif k == "use":
                ol = op_local(rv["o"])
                if ol and not ol[1]:
                    val = env.get(ol[0])
                elif rv["o"][0] == "k" and isinstance(rv["o"][1], dict) and isinstance(rv["o"][1].get("val"), int):
                    val = ("const", rv["o"][1]["val"])
            elif k == "discr" and not rv["p"][1]:
                v = env.get(rv["p"][0])
                if v and v[0] == "variant":
                    val = ("const", v[1])
                else:
                    discr_of[d[0]] = rv["p"][0]
            if val is not None and d[0] not in bad:
                env[d[0]] = val
            else:
                env.pop(d[0], None)
        t = blk["t"]
        k = t["k"]
        if k == "call":
            d = t["d"]
            val = None
            f = t.get("f")
            if f and f["id"] == BRANCH and t["args"] and "self_ty" in f:
                ol = op_local(t["args"][0])
                v = env.get(ol[0]) if ol and not ol[1] else None
                st_ = P.tstr(fn.crate, f["self_ty"])
                if v and v[0] == "variant":
                    if st_.startswith("core::result::Result"):
                        val = ("variant", 0 if v[1] == 0 else 1)  # Ok -> Continue, Err -> Break
                    elif st_.startswith("core::option::Option"):
                        val = ("variant", 0 if v[1] == 1 else 1)  # Some -> Continue, None -> Break
            if f and f["id"].rsplit("::", 1)[1] in ("is_none", "is_some") and t["args"] and ("option::Option" in f["name"]):
                ol = op_local(t["args"][0])
                tgt = refs.get(ol[0]) if ol and not ol[1] else None
                v = env.get(tgt) if tgt is not None else (env.get(ol[0]) if ol and not ol[1] else None)
                if v and v[0] == "variant":
                    is_none = (v[1] == 0)
                    val = ("const", 1 if (is_none == (f["id"].endswith("is_none"))) else 0)
            if not d[1] and val is not None and d[0] not in bad:
                env[d[0]] = val
            else:
                env.pop(d[0], None)
            if on_call is not None:
                on_call(bi, t, env)
            if t.get("t") is not None:
                work.append((t["t"], frozenset(env.items())))
        elif k == "switch":
            ol = op_local(t["o"])
            v = env.get(ol[0]) if ol and not ol[1] else None
            nfs = frozenset(env.items())
            if v and v[0] == "const":
                tgt = [tb for c, tb in t["t"] if c == v[1]]
                work.append(((tgt[0] if tgt else t["else"]), nfs))
            else:
                # a switch on the discriminant of a two-variant enum local teaches its variant on each edge
                src = discr_of.get(ol[0]) if ol and not ol[1] else None
                two = False
                if src is not None and src not in bad:
                    tj = P.local_tyj(fn, src)
                    two = tj.get("k") == "adt" and tj.get("id") in ("core::option::Option", "core::result::Result", "core::ops::control_flow::ControlFlow")
                def teach(e2, x, variant):
                    e2[x] = ("variant", variant)
                    cur, hops = x, 0
                    while hops < 6:
                        nxt = same_some.get(cur)
                        if nxt is None:
                            break
                        nxt = refs.get(nxt, nxt)
                        if nxt in bad:
                            break
                        tj2 = P.local_tyj(fn, nxt)
                        if tj2.get("k") == "adt" and tj2.get("id") == "core::option::Option":
                            e2[nxt] = ("variant", variant)
                        cur = nxt
                        hops += 1
                for c, tb in t["t"]:
                    if two:
                        e2 = dict(env)
                        teach(e2, src, c)
                        work.append((tb, frozenset(e2.items())))
                    else:
                        work.append((tb, nfs))
                if two and len(t["t"]) == 1 and t["t"][0][0] in (0, 1):
                    e2 = dict(env)
                    teach(e2, src, 1 - t["t"][0][0])
                    work.append((t["else"], frozenset(e2.items())))
                else:
                    work.append((t["else"], nfs))
        elif k in ("goto", "drop", "assert"):
            work.append((t["t"], frozenset(env.items())))
    return out


def option_may_be_none(P, fn, site_block):
    """For an `Option::expect/unwrap(x)` call at site_block: can the call be reached on a path where x is not known to be Some?
    Returns (decided, may_be_none): decided is False when x is not a plain tracked local."""
    t = fn.blocks[site_block]["t"]
    ol = op_local(t["args"][0]) if t.get("args") else None
    if not ol or ol[1]:
        return False, True
    target = ol[0]
    # the operand is usually a move/copy of the real local: follow single copies backwards
    from mirutil import defs_of
    chain = [target]
    cur = target
    for _ in range(4):
        ds = defs_of(fn, cur)
        if len(ds) == 1 and ds[0][0] == "a" and ds[0][3]["k"] == "use" and op_local(ds[0][3]["o"]) and not op_local(ds[0][3]["o"])[1]:
            cur = op_local(ds[0][3]["o"])[0]
            chain.append(cur)
        else:
            break
    seen_states = []

    def on_call(bi, tt, env):
        if bi == site_block:
            v = None
            for l in chain:
                v = env.get(l) or v
            seen_states.append(v)
    kreach(P, fn, [0], on_call=on_call)
    if not seen_states:
        return True, False  # unreachable
    may = any(not (v and v[0] == "variant" and v[1] == 1) for v in seen_states)
    return True, may
