"""R-GRAMMAR: totality of the lax top-level rule, the whitespace class, the trim delimiters."""
import grammar as G


def nullable(g, e, seen=()):
    k = e["k"]
    if k in ("str", "insens"):
        return e["v"] == ""
    if k == "range":
        return False
    if k == "ident":
        n = e["v"]
        if n in ("SOI", "EOI"):
            return True
        if n in ("ANY", "NEWLINE") or n.startswith("ASCII"):
            return False
        if n in seen:
            return False
        r = g.rule(n)
        return nullable(g, r["e"], seen + (n,)) if r else False
    if k == "seq":
        return nullable(g, e["a"], seen) and nullable(g, e["b"], seen)
    if k == "choice":
        return nullable(g, e["a"], seen) or nullable(g, e["b"], seen)
    if k in ("opt", "rep", "neg", "pos"):
        return True
    if k in ("rep1", "push"):
        return nullable(g, e["e"], seen)
    if k == "repn":
        return e.get("min", 0) == 0 or nullable(g, e["e"], seen)
    return True


def run_totality(rep, g, rule="R-GRAMMAR.total"):
    where = G.GRAMMAR_REL
    r = g.rule("LaxLiquidFile")
    if r is None:
        rep.anchor_missing(rule, "grammar rule LaxLiquidFile")
        return
    e = r["e"]
    ok = False
    detail = "shape is %s" % G.Grammar.shape(e)
    try:
        if r["ty"] not in ("compound", "atomic"):
            detail = "LaxLiquidFile is not (compound-)atomic: implicit whitespace skipping would apply between elements"
            raise ValueError
        assert e["k"] == "seq" and e["b"] == {"k": "ident", "v": "EOI"}
        l = e["a"]
        assert l["k"] == "seq" and l["a"] == {"k": "ident", "v": "SOI"} and l["b"]["k"] == "rep"
        ch = l["b"]["e"]
        assert ch["k"] == "choice"
        alts = g.flatten_choice(ch)
        names = [a["v"] for a in alts if a["k"] == "ident"]
        assert len(names) == len(alts)
        # exactly one catch-all alternative `!E ~ ANY` whose E is one of the other alternatives
        catch = []
        for n in names:
            b = g.rule(n)["e"] if g.rule(n) else None
            if b and b["k"] == "seq" and b["a"]["k"] == "neg" and b["b"] == {"k": "ident", "v": "ANY"} and b["a"]["e"]["k"] == "ident":
                catch.append((n, b["a"]["e"]["v"]))
        if len(catch) != 1:
            detail = "no catch-all alternative of the exact form `!E ~ ANY` (found %s); a position where no alternative matches makes the lax rule fail and parse() panics" % [c[0] for c in catch]
            raise ValueError
        cname, guarded = catch[0]
        others = [n for n in names if n != cname]
        if guarded not in others:
            detail = "catch-all `%s` excludes `%s`, which is not itself an alternative of the element choice: some input position matches neither" % (cname, guarded)
            raise ValueError
        # alternatives that can match must consume input (no infinite loop; pest also validates this)
        for n in others:
            if nullable(g, {"k": "ident", "v": n}):
                detail = "alternative %s can match the empty string" % n
                raise ValueError
        ok = True
        detail = "SOI ~ (%s | %s)* ~ EOI with %s = !%s ~ ANY: at every non-final position one alternative matches and consumes >= 1 char" % (
            " | ".join(others), cname, cname, guarded)
    except (AssertionError, ValueError, KeyError, TypeError):
        pass
    if ok:
        rep.ok(rule, "LaxLiquidFile never fails", where, detail)
    else:
        rep.viol(rule, "LaxLiquidFile never fails", where, "the lax top-level rule is no longer provably total: " + detail)


def run_whitespace(rep, g, rule="R-GRAMMAR.ws"):
    r = g.rule("WHITESPACE")
    if r is None:
        rep.anchor_missing(rule, "grammar rule WHITESPACE")
        return
    s = g.single_strings(r["e"])
    if s is None:
        rep.viol(rule, "WHITESPACE class", G.GRAMMAR_REL, "WHITESPACE is not a plain choice of literals: %s" % G.Grammar.shape(r["e"]))
        return
    need = {" ": "space", "\t": "tab", "\n": "line feed", "\r": "carriage return"}
    missing = [nm for ch, nm in need.items() if ch not in s]
    extra = [x for x in s if any(c not in " \t\n\r\x0b\x0c" for c in x)]
    if missing:
        rep.viol(rule, "WHITESPACE class missing " + ",".join(missing), G.GRAMMAR_REL,
                 "WHITESPACE accepts %s; a trim marker must remove spaces, tabs and line breaks (missing: %s)" % (sorted(s), missing))
    elif extra:
        rep.viol(rule, "WHITESPACE class extra", G.GRAMMAR_REL, "WHITESPACE accepts non-whitespace %s: trim markers would eat text" % extra)
    else:
        rep.ok(rule, "WHITESPACE class", G.GRAMMAR_REL, "accepts %s" % sorted(s))
    if r["ty"] != "silent":
        rep.viol(rule, "WHITESPACE silent", G.GRAMMAR_REL, "WHITESPACE must be a silent rule")


def _is_ws_rep(e):
    return e["k"] == "rep" and e["e"] == {"k": "ident", "v": "WHITESPACE"}


def run_delimiters(rep, g, rule="R-GRAMMAR.delims"):
    spec = {"TagStart": ("start", "{%-", "{%"), "ExpressionStart": ("start", "{{-", "{{"),
            "TagEnd": ("end", "-%}", "%}"), "ExpressionEnd": ("end", "-}}", "}}")}
    for name, (side, trim, plain) in sorted(spec.items()):
        r = g.rule(name)
        if r is None:
            rep.anchor_missing(rule, "grammar rule " + name)
            continue
        e = r["e"]
        good = False
        if e["k"] == "choice" and e["b"] == {"k": "str", "v": plain} and e["a"]["k"] == "seq":
            a = e["a"]
            if side == "start":
                good = _is_ws_rep(a["a"]) and a["b"] == {"k": "str", "v": trim}
            else:
                good = a["a"] == {"k": "str", "v": trim} and _is_ws_rep(a["b"])
        if good and r["ty"] == "silent":
            rep.ok(rule, name, G.GRAMMAR_REL, "trimming form first: %s" % G.Grammar.shape(e))
        else:
            rep.viol(rule, name, G.GRAMMAR_REL,
                     "%s is %s (%s); it must try the trimming form first, with WHITESPACE* on the outer side only, then %r"
                     % (name, G.Grammar.shape(e), r["ty"], plain))
    # Raw: maximal text up to the next start delimiter, checked at every character
    r = g.rule("Raw")
    want = {"k": "rep1", "e": {"k": "seq", "a": {"k": "neg", "e": {"k": "choice", "a": {"k": "ident", "v": "TagStart"},
                                                                   "b": {"k": "ident", "v": "ExpressionStart"}}},
                                 "b": {"k": "ident", "v": "ANY"}}}
    if r is None:
        rep.anchor_missing(rule, "grammar rule Raw")
    elif r["e"] == want and r["ty"] == "atomic":
        rep.ok(rule, "Raw", G.GRAMMAR_REL, "(!(TagStart | ExpressionStart) ~ ANY)+ : every character is checked against the (trimming) start delimiters")
    else:
        rep.viol(rule, "Raw", G.GRAMMAR_REL,
                 "Raw is %s (%s): a character can be taken as text without the start-delimiter lookahead (whitespace owed to a `{{-`/`{%%-` may be kept)"
                 % (G.Grammar.shape(r["e"]), r["ty"]))
    # Tag / Expression: start ~ WS* ~ inner ~ WS* ~ end
    for name, (st, inner, en) in {"Tag": ("TagStart", "TagInner", "TagEnd"), "Expression": ("ExpressionStart", "ExpressionInner", "ExpressionEnd")}.items():
        r = g.rule(name)
        if r is None:
            rep.anchor_missing(rule, "grammar rule " + name)
            continue
        sh = G.Grammar.shape(r["e"])
        want_sh = "((((%s ~ WHITESPACE*) ~ %s) ~ WHITESPACE*) ~ %s)" % (st, inner, en)
        if sh == want_sh:
            rep.ok(rule, name, G.GRAMMAR_REL, sh)
        else:
            rep.viol(rule, name, G.GRAMMAR_REL, "%s is %s, expected %s" % (name, sh, want_sh))


# ---------------------------------------------------------------------------------------
# R-GRAMMAR.hyphen: a hyphen inside a tag never eats a trim marker

def _lit_set(e, depth=0):
    """Finite set of strings an expression made of string literals, sequences and choices can match (None if not finite)."""
    k = e["k"]
    if k == "str":
        return {e["v"]}
    if k == "seq":
        a, b = _lit_set(e["a"], depth + 1), _lit_set(e["b"], depth + 1)
        if a is None or b is None:
            return None
        return {x + y for x in a for y in b}
    if k == "choice":
        a, b = _lit_set(e["a"], depth + 1), _lit_set(e["b"], depth + 1)
        if a is None or b is None:
            return None
        return a | b
    return None


def _flatten_seq(e):
    if e["k"] == "seq":
        return _flatten_seq(e["a"]) + _flatten_seq(e["b"])
    return [e]


def _mentions_hyphen(e):
    if e["k"] == "str":
        return "-" in e["v"]
    out = False
    for key in ("a", "b", "e"):
        if isinstance(e.get(key), dict):
            out = out or _mentions_hyphen(e[key])
    return out


HYPHEN_USERS = {
    "NON_WHITESPACE_CONTROL_HYPHEN": "the one place a hyphen is accepted inside names, guarded against the two closing trim markers",
    "TagStart": "trim marker", "TagEnd": "trim marker", "ExpressionStart": "trim marker", "ExpressionEnd": "trim marker",
    "IntegerLiteral": "sign of a number", "FloatLiteral": "sign of a number",
}


def run_hyphen(rep, g, rule="R-GRAMMAR.hyphen"):
    """NON_WHITESPACE_CONTROL_HYPHEN = "-" not followed by what would make it the closing trim marker: its negative lookaheads
    exclude exactly {"-}}", "-%}"}. No other rule mentions a bare "-" (a word-boundary or operator rule that names "-" would
    treat the hyphen of `-%}` / `-}}` as its own)."""
    r = g.rule("NON_WHITESPACE_CONTROL_HYPHEN")
    if r is None:
        rep.anchor_missing(rule, "grammar rule NON_WHITESPACE_CONTROL_HYPHEN")
    else:
        parts = _flatten_seq(r["e"])
        negs = [p for p in parts if p["k"] == "neg"]
        rest = [p for p in parts if p["k"] != "neg"]
        excluded = set()
        finite = True
        for n_ in negs:
            ls = _lit_set(n_["e"])
            if ls is None:
                finite = False
            else:
                excluded |= ls
        if finite and excluded == {"-}}", "-%}"} and rest == [{"k": "str", "v": "-"}] and parts[-1] == {"k": "str", "v": "-"}:
            rep.ok(rule, "NON_WHITESPACE_CONTROL_HYPHEN", G.GRAMMAR_REL, "`-` unless it starts `-}}` or `-%}`")
        else:
            rep.viol(rule, "NON_WHITESPACE_CONTROL_HYPHEN", G.GRAMMAR_REL,
                     "the hyphen rule is %s: its lookaheads exclude %s instead of exactly `-}}` and `-%%}` — a hyphen directly before a closing delimiter "
                     "can be taken as part of a name, so the trim marker is lost" % (G.Grammar.shape(r["e"]), sorted(excluded) if finite else "a non-literal set"))
    bad = []
    for name in sorted(g.rules):
        if name in HYPHEN_USERS:
            continue
        if _mentions_hyphen(g.rules[name]["e"]):
            bad.append(name)
    for name in bad:
        rep.viol(rule, "bare hyphen in " + name, G.GRAMMAR_REL,
                 "rule %s names a bare `-`: inside a tag that hyphen may be the first character of `-%%}` / `-}}`; use NON_WHITESPACE_CONTROL_HYPHEN" % name)
    if not bad:
        rep.ok(rule, "hyphen users", G.GRAMMAR_REL, "only %s mention `-`" % sorted(HYPHEN_USERS))
