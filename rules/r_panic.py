"""R-PANIC: census of panic-capable sites reachable from parsing / rendering, each of which must
be discharged by a grammar fact, a dominating guard, another rule, or a reviewed ledger line."""
import json
import os
from facts import LIB_CRATES, VERIF
from mirutil import op_local
import r_lock

UNWRAPS = ("::expect", "::unwrap", "::unwrap_err", "::expect_err", "::unwrap_unchecked")
PRECOND_CALLS = {
    # callee last segment (on std collections / strings) -> precondition
    "drain": "range within bounds", "remove": "index < len", "insert": "index <= len", "split_off": "at <= len",
    "swap_remove": "index < len", "truncate": "char boundary (String only)", "split_at": "mid on boundary and <= len",
    "swap": "indices < len", "copy_from_slice": "equal lengths", "abs": "!= MIN", "pow": "no overflow",
    "chunks": "size != 0", "step_by": "step != 0", "repeat": "no capacity overflow", "from_digit": "radix <= 36",
    "from_hms": "ranges", "split_at_mut": "mid <= len", "rotate_left": "k <= len", "rotate_right": "k <= len",
    "windows": "size != 0", "set_len": "unsafe", "replace_range": "boundaries", "insert_str": "boundary", "drain_filter": "",
}


# dependency functions documented to panic on out-of-range results (named explicitly: extern callees are otherwise benign)
EXTERN_PANICS = {
    "time::OffsetDateTime::to_offset": "panics when the local date-time leaves the supported year range (use checked_to_offset)",
    "time::Duration::weeks": "panics on overflow", "time::Duration::days": "panics on overflow",
    "time::Duration::hours": "panics on overflow", "time::Duration::minutes": "panics on overflow",
    "time::PrimitiveDateTime::assume_offset": None,
}
TIME_ARITH_TRAITS = ("core::ops::arith::Add::add", "core::ops::arith::Sub::sub", "core::ops::arith::AddAssign::add_assign",
                     "core::ops::arith::SubAssign::sub_assign")
TIME_TYPES = ("time::offset_date_time::OffsetDateTime", "time::date::Date", "time::primitive_date_time::PrimitiveDateTime",
              "time::duration::Duration", "time::time::Time", "std::time::Instant", "std::time::SystemTime")


def parse_roots(P):
    roots = []
    for fn in P.fns.values():
        if fn.crate not in LIB_CRATES:
            continue
        tr = fn.impl.get("trait") if fn.impl else None
        if tr in ("liquid_core::parser::tag::ParseTag", "liquid_core::parser::block::ParseBlock",
                  "liquid_core::parser::filter::ParseFilter", "liquid_core::parser::filter::FilterParameters",
                  "liquid_core::partials::PartialCompiler"):
            roots.append(fn.id)
        elif fn.id in ("liquid_core::parser::parser::parse", "liquid_core::parser::parser::parse_variable"):
            roots.append(fn.id)
        elif fn.key.startswith("<liquid::parser::Parser>::parse") or fn.key.startswith("<liquid::parser::ParserBuilder<P>>::"):
            roots.append(fn.id)
    return roots


def site_list(P, fn):
    """Panic-capable sites of one body: (kind, detail, block index, line, macro list)."""
    out = []
    for bi, b in enumerate(fn.blocks):
        t = b["t"]
        if t["k"] == "assert":
            m = t["msg"]
            if m.startswith("Misaligned") or m.startswith("NullPointer") or m.startswith("InvalidEnum"):
                continue
            out.append(("assert", m, bi, t["line"], t.get("macros", [])))
        elif t["k"] == "call":
            f = t.get("f")
            if not f:
                continue
            nm = f["name"]
            fid = f["id"]
            last = fid.rsplit("::", 1)[1]
            if fid.startswith("core::panicking::") or fid.startswith("std::rt::begin_panic") or fid.startswith("core::option::expect_failed") \
                    or fid.startswith("core::result::unwrap_failed") or fid.startswith("core::option::unwrap_failed"):
                mac = [m for m in t.get("macros", []) if not m.startswith("desugar")]
                msg = ""
                for a in t["args"]:
                    if a[0] == "k" and "str" in a[1]:
                        msg = "(%r)" % a[1]["str"][:60]
                out.append(("panic", (mac[-1] if mac else last) + msg, bi, t["line"], t.get("macros", [])))
            elif (nm.startswith("std::option::Option::<T>") or nm.startswith("std::result::Result::<T, E>")) and nm.endswith(UNWRAPS):
                msg = ""
                if len(t["args"]) > 1 and t["args"][1][0] == "k" and "str" in t["args"][1][1]:
                    msg = "(%r)" % t["args"][1][1]["str"][:60]
                out.append(("unwrap", nm.split("::")[2] + "::" + last + msg, bi, t["line"], t.get("macros", [])))
            elif fid in ("core::ops::index::Index::index", "core::ops::index::IndexMut::index_mut"):
                st = P.tstr(fn.crate, f["self_ty"]) if "self_ty" in f else "?"
                out.append(("index", st, bi, t["line"], t.get("macros", [])))
            elif EXTERN_PANICS.get(nm):
                out.append(("extern", nm, bi, t["line"], t.get("macros", [])))
            elif fid in TIME_ARITH_TRAITS and "self_ty" in f and P.tstr(fn.crate, f["self_ty"]).startswith(TIME_TYPES):
                out.append(("extern", "%s on %s" % (last, P.tstr(fn.crate, f["self_ty"]).rsplit("::", 1)[-1]), bi, t["line"], t.get("macros", [])))
            elif nm.endswith("RefCell::<T>::borrow") or nm.endswith("RefCell::<T>::borrow_mut"):
                out.append(("refcell", last, bi, t["line"], t.get("macros", [])))
            elif last in PRECOND_CALLS and not f["krate"].startswith("liquid") and (
                    "Vec" in nm or "String" in nm or "str>" in nm or "slice" in nm or "::str::" in nm or nm.startswith("core::num::") or
                    nm.startswith("std::iter::Iterator::step_by") or "i64" in nm or "i32" in nm or "isize" in nm or "time::" in nm):
                out.append(("precond", nm, bi, t["line"], t.get("macros", [])))
    return out


def reach_sets(P):
    pr = P.reachable_fns(parse_roots(P))
    rr = P.reachable_fns(r_lock.render_roots(P))
    return pr, rr


def site_key(P, fn, kind, detail, ordn):
    return "%s|%s|%s#%d" % (fn.key, kind, detail, ordn)


def census(P):
    """All sites in PARSE ∪ RENDER of the library crates: key -> info."""
    pr, rr = reach_sets(P)
    out = {}
    for fid in sorted(pr | rr):
        fn = P.fns[fid]
        if fn.crate not in LIB_CRATES:
            continue
        if fn.expn and fn.impl and fn.impl.get("trait") in ("core::fmt::Debug", "core::clone::Clone", "core::cmp::PartialEq",
                                                             "core::cmp::PartialOrd", "core::hash::Hash", "core::default::Default"):
            continue
        cnt = {}
        for kind, detail, bi, line, macros in site_list(P, fn):
            k0 = (kind, detail)
            o = cnt.get(k0, 0)
            cnt[k0] = o + 1
            key = site_key(P, fn, kind, detail, o)
            out[key] = {"fn": fn, "kind": kind, "detail": detail, "block": bi, "line": line, "macros": macros,
                        "in_parse": fid in pr, "in_render": fid in rr}
    return out


def load_ledger():
    p = os.path.join(VERIF, "ledger", "panic_sites.tsv")
    led = {}
    if os.path.exists(p):
        with open(p) as fh:
            for ln in fh:
                ln = ln.rstrip("\n")
                if not ln or ln.startswith("#"):
                    continue
                parts = ln.split("\t")
                if len(parts) >= 3:
                    led[parts[0]] = (parts[1], parts[2])
    return led


# ---------------------------------------------------------------------------------------
# discharge

def callers_of(P, fid):
    g = P.callgraph()
    return sorted(P.fns[a].key for a, outs in g.items() if fid in outs and a in P.fns)


def rule_enum_variants(P):
    a = P.adts.get("liquid_core::parser::parser::inner::Rule")
    return [v["name"] for v in a["variants"]] if a else []


def handled_rule_variants(P, fn):
    """Variants of the pest Rule enum that a body's switches on a Rule discriminant handle explicitly."""
    names = rule_enum_variants(P)
    out = set()
    for b in fn.blocks:
        t = b["t"]
        if t["k"] != "switch":
            continue
        ol = op_local(t["o"])
        if not ol:
            continue
        for st in b["s"]:
            if st[0] == "a" and st[1][0] == ol[0] and st[2]["k"] == "discr":
                ty = P.local_ty(fn, st[2]["p"][0])
                if ty.endswith("parser::inner::Rule"):
                    for v, tb in t["t"]:
                        if v < len(names):
                            out.add(names[v])
    # comparisons `as_rule() == Rule::X` / `!=`
    for b in fn.blocks:
        for st in b["s"]:
            if st[0] == "a" and st[2]["k"] == "agg" and st[2].get("id", "").endswith("parser::inner::Rule"):
                out.add(st[2]["vname"])
    return out


def verify_class(P, g, key, info, cls, rep_rules_clean):
    """(ok, message) for a ledger class."""
    fn = info["fn"]
    parts = cls.split(":")
    c = parts[0]
    if c == "D-SOME":
        import kreach
        dec, may = kreach.option_may_be_none(P, fn, info["block"])
        if dec and not may:
            return True, "path exploration: on every path that reaches this expect/unwrap the Option is known to be Some"
        return False, "the Option can reach this expect/unwrap as None (or its state is unknown) on some path"
    if c == "G-CHILD":
        rule, k = parts[1], int(parts[2])
        ch = g.children(rule)
        if ch is None:
            return False, "grammar rule %s is gone" % rule
        if len(ch) > k:
            return True, "grammar: %s always has child #%d (%s)" % (rule, k, "|".join(sorted(ch[k])))
        return False, "grammar: rule %s no longer guarantees a child at position %d (children now %s)" % (rule, k, [sorted(x) for x in ch])
    if c == "G-ALT":
        rule = parts[1]
        r = g.rule(rule)
        if r is None:
            return False, "grammar rule %s is gone" % rule
        handled = handled_rule_variants(P, fn) | handled_rule_variants(P, P.fns[fn.parent]) if fn.kind == "closure" and fn.parent in P.fns else handled_rule_variants(P, fn)
        if parts[2] == "0":
            ch = g.children(rule)
            possible = set(ch[0]) if ch else set()
        else:
            possible = g.child_set(rule)
        if parts[2] == "*":
            # all children except the leading one handled elsewhere
            possible = g.child_set(rule)
        if parts[2] == "args":
            possible = g.child_set(rule) - {"Identifier"}
        if parts[2] == "elements":
            possible = g.child_set(rule) - {"EOI"}
        missing = possible - handled
        if missing:
            return False, "grammar allows %s as child of %s, which the match does not handle: its fallback arm panics" % (sorted(missing), rule)
        return True, "match arms cover every child the grammar allows under %s (%s)" % (rule, sorted(possible))
    if c == "G-LANG":
        rule, conv = parts[1], parts[2]
        r = g.rule(rule)
        if r is None:
            return False, "grammar rule %s is gone" % rule
        sh = g.shape(r["e"])
        if conv == "bool":
            s = g.single_strings(r["e"])
            return (s == {"true", "false"}, "BooleanLiteral accepts %s" % sorted(s or []))
        if conv == "f64":
            want = '(((("+" | "-")? ~ ASCII_DIGIT+) ~ ".") ~ ASCII_DIGIT+)'
            return (sh == want and r["ty"] == "atomic", "FloatLiteral is %s" % sh)
        if conv == "quoted":
            want = '((("\'" ~ (!"\'" ~ ANY)*) ~ "\'") | (("\\"" ~ (!"\\"" ~ ANY)*) ~ "\\""))'
            return (sh == want and r["ty"] == "atomic", "StringLiteral is %s" % sh)
        return False, "unknown conversion " + conv
    if c == "G-TOP":
        return True, "pest yields the start rule's pair on success"
    if c == "D-RULE":
        want = set(cls.split("callers=", 1)[1].split(",")) if "callers=" in cls else set()
        got = set(callers_of(P, fn.id))
        if got - want:
            return False, "new caller(s) %s of a conversion that panics unless the pair has rule %s: each caller must be reviewed" % (sorted(got - want), parts[1])
        # every call site hands over a pair whose rule is established: a child taken from a parent pair (grammar fact), the result
        # of a rule-checking `unwrap_*` helper, an iterator item (closure parameter), or a value on a rule-specific match arm
        from origins import backward_slice
        for cid in sorted(got):
            C = P.fns.get(cid) or next((f for f in P.fns.values() if f.key == cid), None)
            if C is None:
                continue
            for bi2, t2 in P.calls(C):
                if not t2.get("f") or t2["f"]["id"] != fn.id or not t2["args"]:
                    continue
                ol = op_local(t2["args"][0])
                locs, calls = backward_slice(C, ol[0]) if ol else (set(), [])
                lasts = {c_["f"]["id"].rsplit("::", 1)[1] for c_ in calls if c_.get("f")}
                est = bool(lasts & {"next", "into_inner", "peek", "nth", "last", "next_back"}) or any(x.startswith("unwrap_") for x in lasts)
                if not est and C.kind == "closure" and any(l in locs for l in range(2, C.argc + 1)):
                    est = True
                if not est:
                    # on an arm of `match pair.as_rule()`
                    for di, b in enumerate(C.blocks):
                        if b["t"]["k"] == "switch" and P.dominates(C, di, bi2) and any(
                                st[0] == "a" and st[2]["k"] == "discr" and P.local_ty(C, st[2]["p"][0]).endswith("inner::Rule") for st in b["s"]):
                            est = True
                if not est:
                    return False, ("caller %s passes a pair whose rule is not established at the call (line %s): not a child taken from a parent pair, "
                                   "not the result of an unwrap_* rule check, not on a `match as_rule()` arm" % (C.key, t2["line"]))
        return True, "callers %s are the reviewed set and each passes a rule-established pair" % sorted(got)
    if c == "D-PRECHECK":
        return precheck_covered(P, fn, parts[1], cls.split("converters=", 1)[1].split(",") if "converters=" in cls else [])
    if c == "O-RULE":
        return True, "discharged by rule %s (run for this property)" % parts[1]
    if c == "D-CMP":
        import r_arith
        t = fn.blocks[info["block"]]["t"]
        gd = r_arith.dominating_compare(P, fn, info["block"], list(reversed(t["ops"])))
        if gd:
            return True, "dominating comparison of index and length (%s)" % gd
        return False, "the dominating index/length comparison is gone"
    if c == "D-GUARD":
        what = parts[1]
        bi = info["block"]
        for ci, b in enumerate(fn.blocks):
            t = b["t"]
            if t["k"] != "switch" or not P.dominates(fn, ci, bi) or ci == bi:
                continue
            if what == "len==2":
                for st in b["s"]:
                    if st[0] == "a" and st[2]["k"] == "bin" and st[2]["op"] == "Eq" and st[2]["b"][0] == "k" and st[2]["b"][1].get("val") == 2:
                        if bi not in P.reach(fn, [tb for v, tb in t["t"] if v == 0], stop={ci}):
                            return True, "dominated by the `len() == 2` test"
            if what == "is_empty":
                ol = op_local(t["o"])
                for bj, t2 in P.calls(fn):
                    if t2["d"][0] == (ol[0] if ol else None) and t2.get("f") and t2["f"]["id"].endswith("::is_empty"):
                        if bi not in P.reach(fn, [t["else"]], stop={ci}):
                            return True, "dominated by the `!is_empty()` test"
        return False, "the guarding test (%s) no longer dominates the site" % what
    if c == "D-MIN":
        from origins import backward_slice
        t = fn.blocks[info["block"]]["t"]
        ol = op_local(t["args"][1]) if len(t["args"]) > 1 else None
        locs, calls = backward_slice(fn, ol[0]) if ol else (set(), [])
        if any(cc.get("f") and cc["f"]["id"].rsplit("::", 1)[1] == "min" for cc in calls):
            return True, "range end is min(_, len)"
        return False, "the range end is no longer clamped with min(_, len)"
    if c in ("D-LOCAL", "L-REASON", "OUT-OF-DOMAIN", "D-STRINGFMT", "CONST-REGEX"):
        return True, "reviewed: " + c
    if c == "KNOWN":
        return False, "known finding " + ":".join(parts[1:])
    return False, "unknown ledger class " + cls


def _none_side_only(P, C, chk_block, chk_t, site_block):
    """The Option returned by the checker call is tested, and `site_block` is not reachable from the Some side of that test."""
    from mirutil import defs_of
    r = chk_t["d"][0]
    refs = {r}
    for b in C.blocks:
        for st in b["s"]:
            if st[0] == "a" and not st[1][1] and st[2]["k"] in ("ref", "use"):
                src = st[2]["p"][0] if st[2]["k"] == "ref" else (op_local(st[2]["o"]) or (None,))[0]
                if src in refs:
                    refs.add(st[1][0])
    some_side = []
    for bi, b in enumerate(C.blocks):
        t = b["t"]
        if t["k"] == "switch":
            ol = op_local(t["o"])
            for st in b["s"]:
                if st[0] == "a" and ol and st[1][0] == ol[0] and st[2]["k"] == "discr" and st[2]["p"][0] in refs:
                    some_side += [tb for v, tb in t["t"] if v == 1] or [t["else"]]
        if t["k"] == "call" and t.get("f") and t["args"]:
            a0 = op_local(t["args"][0])
            last = t["f"]["id"].rsplit("::", 1)[1]
            if a0 and a0[0] in refs and last in ("is_none", "is_some") and "option::Option" in t["f"]["name"]:
                bl = t["d"][0]
                # follow the bool to its switch (possibly through `!`/moves within the successor chain)
                for bj, b2 in enumerate(C.blocks):
                    t2 = b2["t"]
                    if t2["k"] != "switch":
                        continue
                    o2 = op_local(t2["o"])
                    if not o2:
                        continue
                    root = o2[0]
                    neg = False
                    for _ in range(4):
                        ds = defs_of(C, root)
                        if len(ds) == 1 and ds[0][0] == "a" and ds[0][3]["k"] == "use" and op_local(ds[0][3]["o"]):
                            root = op_local(ds[0][3]["o"])[0]
                        elif len(ds) == 1 and ds[0][0] == "a" and ds[0][3]["k"] == "un" and ds[0][3].get("op") == "Not" and op_local(ds[0][3].get("a") or ds[0][3].get("o")):
                            root = op_local(ds[0][3].get("a") or ds[0][3].get("o"))[0]
                            neg = not neg
                        else:
                            break
                    if root != bl:
                        continue
                    zero = [tb for v, tb in t2["t"] if v == 0]
                    nonzero = [t2["else"]] + [tb for v, tb in t2["t"] if v != 0]
                    is_some_true = (last == "is_some") != neg
                    some_side += (nonzero if is_some_true else zero) if zero else []
                    if not zero:
                        return False
    if not some_side:
        return False
    return site_block not in P.reach(C, some_side)


CHECKER_OK_CALLS = ("as_rule", "eq", "ne", "is_err", "is_ok", "parse", "from_str", "as_str", "call", "call_mut", "call_once", "deref", "clone",
                    "into_inner", "flatten", "find", "any", "next", "is_some", "is_none", "as_ref", "borrow")


def checker_inexact(P, chk, site_fn):
    """The checker must say Some exactly when the conversion at the guarded site fails: its decisions (every switch in the
    checker and its closures) depend only on the pair's rule, on the success of the *same* std conversion the site unwraps and
    on its own closure's answer.  A further condition (a length shortcut, a sign test, a digit count) can only make it say None
    for an input that still panics — it is reported, since no shape argument shows such a shortcut exact."""
    from origins import backward_slice
    # the conversion whose failure panics at the site: parse::<T> with the same T
    site_convs = {t["f"]["name"] for bi, t in P.calls(site_fn) if t.get("f") and t["f"]["id"].rsplit("::", 1)[1] in ("parse", "from_str")}
    bodies = [chk] + [g for g in P.fns.values() if g.kind == "closure" and (g.parent == chk.id or getattr(g, "root", None) == chk.id)]
    convs = {t["f"]["name"] for g in bodies for bi, t in P.calls(g) if t.get("f") and t["f"]["id"].rsplit("::", 1)[1] in ("parse", "from_str")}
    if not convs or not convs <= site_convs:
        return "the checker %s does not try the conversion the guarded site unwraps (%s vs %s)" % (chk.key, sorted(convs), sorted(site_convs))
    for g in bodies:
        for bi, b in enumerate(g.blocks):
            t = b["t"]
            if t["k"] != "switch":
                continue
            ol = op_local(t["o"])
            if not ol:
                continue
            locs, calls = backward_slice(g, ol[0])
            for c in calls:
                f = c.get("f")
                last = f["id"].rsplit("::", 1)[1] if f else "?"
                if last not in CHECKER_OK_CALLS:
                    return ("the checker %s decides on `%s` (line %s) besides the rule and the trial conversion: a shortcut condition can let an input through "
                            "that still panics at the guarded conversion" % (chk.key, f["name"] if f else "an indirect call", c.get("line")))
            for b2 in g.blocks:
                for st in b2["s"]:
                    if st[0] == "a" and st[1][0] in locs and st[2]["k"] == "bin" and st[2]["op"].replace("WithOverflow", "") not in ("Eq", "Ne", "BitAnd", "BitOr"):
                        return ("the checker %s decides on a `%s` comparison (line %s) besides the rule and the trial conversion: a shortcut condition can let an "
                                "input through that still panics at the guarded conversion" % (chk.key, st[2]["op"], st[3] if len(st) > 3 else "?"))
    return None


def precheck_covered(P, fn, checker, converters):
    """D-PRECHECK:<checker>:converters=<fns>.  The conversion in `fn` panics on inputs the checker function detects.  `fn` and the
    listed converter functions hand a pest pair on to each other; every *other* function that calls one of them (the frontier)
    must, in the same body, call the checker on a pair the converted pair derives from, at a block dominating the call, with
    the call reachable only from the `None` outcome — or be itself only called from sites that are covered in that way
    (one level, including the construction site of a closure)."""
    from origins import backward_slice
    conv = {fn.id}
    for nm in converters:
        g = [f for f in P.fns.values() if f.key == nm or f.id == nm]
        if len(g) != 1:
            return False, "converter %s named in the ledger is gone" % nm
        conv.add(g[0].id)
    conv |= {f.id for f in P.fns.values() if f.kind == "closure" and (f.parent in conv or getattr(f, "root", None) in conv)}
    chk = [f for f in P.fns.values() if f.id.endswith("::" + checker) and f.kind != "closure"]
    if len(chk) != 1:
        return False, "checker function %s is gone" % checker
    chk_id = chk[0].id
    inexact = checker_inexact(P, chk[0], fn)
    if inexact:
        return False, inexact
    gph = P.callgraph()
    n_sites = [0]

    def site_covered(C, bi, t, depth):
        ol = op_local(t["args"][0]) if t.get("args") else None
        locs = backward_slice(C, ol[0])[0] if ol else set()
        for ci, ct in P.calls(C):
            if not ct.get("f") or ct["f"]["id"] != chk_id or not P.dominates(C, ci, bi) or ci == bi:
                continue
            a0 = op_local(ct["args"][0])
            alocs = backward_slice(C, a0[0])[0] if a0 else set()
            if ol is not None and not (alocs & locs):
                continue
            if _none_side_only(P, C, ci, ct, bi):
                return True
        return depth > 0 and fn_covered(C, depth - 1)

    def fn_covered(C, depth):
        sites = []
        for D in P.fns.values():
            if D.crate != C.crate:
                continue
            for bi, t in P.calls(D):
                if t.get("f") and t["f"]["id"] == C.id:
                    sites.append((D, bi, t))
            if C.kind == "closure" and D.id == C.parent:
                for bi, b in enumerate(D.blocks):
                    for st in b["s"]:
                        if st[0] == "a" and st[2]["k"] == "agg" and st[2].get("ak") == "closure" and st[2].get("id") == C.id:
                            sites.append((D, bi, {"args": []}))
        if not sites or C.pub:
            return False
        return all(site_covered(D, bi, t, depth) for D, bi, t in sites)

    for cid in sorted(conv):
        for a, outs in sorted(gph.items()):
            if cid not in outs or a in conv or a not in P.fns:
                continue
            C = P.fns[a]
            if "::test" in C.id:
                continue
            for bi, t in P.calls(C):
                if not t.get("f") or t["f"]["id"] != cid:
                    continue
                n_sites[0] += 1
                if not site_covered(C, bi, t, 2):
                    return False, ("%s converts a pair with %s (line %s) without a dominating `%s(..)` check whose Some outcome leaves the path: "
                                   "an out-of-range literal reaches the panicking conversion" % (C.key, cid.rsplit("::", 1)[1], t["line"], checker))
    if not n_sites[0]:
        return False, "no frontier call sites found: the converter set changed; re-derive"
    return True, "all %d frontier conversions (callers of %s outside the converter set) are dominated by %s(..) with only the None outcome reaching them" % (
        n_sites[0], sorted(x.rsplit("::", 1)[1] for x in conv), checker)


def auto_discharge(P, fn, info):
    kind = info["kind"]
    t = fn.blocks[info["block"]]["t"]
    if kind == "unwrap":
        ol = op_local(t["args"][0]) if t["args"] else None
        if ol:
            from mirutil import defs_of
            ds = defs_of(fn, ol[0])
            if len(ds) == 1 and ds[0][0] == "c":
                f = ds[0][3].get("f")
                if f and f["id"] == "core::fmt::Write::write_fmt" and "self_ty" in f and P.tstr(fn.crate, f["self_ty"]) == "alloc::string::String":
                    return "D-STRINGFMT: <String as fmt::Write>::write_fmt cannot fail"
                if f and f["name"].endswith("Regex::new") and ds[0][3]["args"] and ds[0][3]["args"][0][0] == "k":
                    return "CONST-REGEX: constant pattern"
    if kind == "precond" and info["detail"].endswith("Vec::<T, A>::insert") and len(t["args"]) >= 2:
        a = t["args"][1]
        if a[0] == "k" and isinstance(a[1], dict) and a[1].get("val") == 0:
            return "D-INSERT0: Vec::insert(0, _) is within bounds for every length"
        ol = op_local(a)
        if ol and not ol[1]:
            from mirutil import defs_of
            ds = defs_of(fn, ol[0])
            if len(ds) == 1 and ds[0][0] == "a" and ds[0][3]["k"] == "use" and ds[0][3]["o"][0] == "k" and ds[0][3]["o"][1].get("val") == 0:
                return "D-INSERT0: Vec::insert(0, _) is within bounds for every length"
    return None


def _adopt_moved(P, c, ledger, key, info, adopted):
    """A human-reviewed ledger line (L-REASON / D-LOCAL) whose site no longer exists, for the same kind of site and the same
    callee, in a function that calls / is called by this site's function: the code moved into or out of a private helper."""
    fn = info["fn"]
    rest = key.split("|", 1)[1].rsplit("#", 1)[0]
    g = P.callgraph()
    for k2, (cls, reason) in sorted(ledger.items()):
        if k2 in c or k2 in adopted or "|" not in k2 or cls.split(":")[0] in ("KNOWN",):
            continue
        f2, rest2 = k2.split("|", 1)
        if rest2.rsplit("#", 1)[0] != rest:
            continue
        cands = [f for f in P.fns.values() if f.key == f2 or f.id == f2]
        if not cands and "::{closure#" in f2:
            # the ledgered site sat in a closure that no longer exists: fall back to the function that contained it
            root = f2.split("::{closure#")[0]
            cands = [f for f in P.fns.values() if f.key == root or f.id == root]
        for other in cands:
            if other.file != fn.file:
                continue
            if other.id == fn.id or fn.id in g.get(other.id, ()) or other.id in g.get(fn.id, ()):
                adopted.add(k2)
                return k2
    return None


def run(P, rep, g, scope, rule="R-PANIC", only=None):
    """scope: 'parse' | 'render' | 'both'; only: optional predicate on the site's function (a property's own files)"""
    import r_strslice
    c = census(P)
    ledger = load_ledger()
    n = 0
    seen_keys = set()
    slice_fns = []
    adopted = set()
    for key, info in sorted(c.items()):
        if scope == "parse" and not info["in_parse"]:
            continue
        if scope == "render" and not info["in_render"]:
            continue
        if only is not None and not only(info["fn"]):
            continue
        n += 1
        fn = info["fn"]
        where = P.where(fn, info["line"])
        kind, detail = info["kind"], info["detail"]
        if kind == "assert" and not detail.startswith("Bounds"):
            rep.count(rule + ".delegated.R-ARITH")
            continue
        if kind == "refcell":
            rep.count(rule + ".delegated.R-REENTRANT")
            continue
        if kind == "index" and detail in ("str", "alloc::string::String"):
            rep.count(rule + ".delegated.R-STRSLICE")
            if fn not in slice_fns:
                slice_fns.append(fn)
            continue
        if kind == "precond" and detail.endswith("Vec::<T, A>::truncate"):
            continue  # Vec::truncate has no panic condition
        auto = auto_discharge(P, fn, info)
        if auto and key not in ledger:
            rep.ok(rule, key, where, auto)
            continue
        if key not in ledger:
            moved = _adopt_moved(P, c, ledger, key, info, adopted)
            if moved and ledger[moved][0].split(":")[0] not in ("L-REASON", "D-LOCAL", "OUT-OF-DOMAIN"):
                # machine-checked classes are re-verified at the new site
                okm, msgm = verify_class(P, g, key, info, ledger[moved][0], None)
                if okm:
                    rep.ok(rule, key, where, "%s — %s (site moved from %s)" % (ledger[moved][0].split(":callers=")[0], msgm, moved))
                    continue
                moved = None
            if moved:
                rep.ok(rule, key, where, "%s — reviewed reason of %s adopted: the site moved between a function and its private helper (%s)" % (
                    ledger[moved][0].split(":")[0], moved, ledger[moved][1]))
                rep.trusted.add("ledger/panic_sites.tsv: %s (adopted by %s)" % (moved, key))
                continue
            rep.viol(rule, key, where,
                     "unjustified panic-capable site (%s %s) reachable from %s: no grammar fact, guard or reviewed reason discharges it"
                     % (kind, detail, "parsing" if info["in_parse"] else "rendering"))
            continue
        cls, reason = ledger[key]
        seen_keys.add(key)
        ok, msg = verify_class(P, g, key, info, cls, None)
        if ok:
            rep.ok(rule, key, where, "%s — %s (%s)" % (cls.split(":callers=")[0], msg, reason))
            if cls.split(":")[0] in ("L-REASON", "D-LOCAL", "OUT-OF-DOMAIN"):
                rep.trusted.add("ledger/panic_sites.tsv: " + key)
        else:
            rep.viol(rule, key, where, "%s: %s" % (cls.split(":callers=")[0], msg), {"ledger_reason": reason})
    # string slices inside those functions
    sl = {k: v for k, v in ledger.items() if " str-slice#" in k}
    led2 = {}
    p = os.path.join(VERIF, "ledger", "strslice.tsv")
    if os.path.exists(p):
        for ln in open(p):
            ln = ln.rstrip("\n")
            if ln and not ln.startswith("#"):
                parts = ln.split("\t")
                if len(parts) >= 3:
                    led2[parts[0]] = (parts[1], parts[2])
    # ledgered slice sites carry a grammar obligation that is re-verified
    for k, (cls, reason) in list(led2.items()):
        if cls.startswith("G-LANG"):
            fake = {"fn": None}
            ok, msg = verify_class(P, g, k, {"fn": None, "block": 0}, cls, None)
            if not ok:
                del led2[k]
    # a ledgered slice that moved with its code into a private helper of the same file keeps its (re-verified) justification
    counts = {f.key: len(list(r_strslice.str_index_sites(P, f))) for f in slice_fns}
    cg = P.callgraph()
    for k, v in list(led2.items()):
        fkey, _, nn = k.rpartition(" str-slice#")
        owners = [f for f in P.fns.values() if f.key == fkey]
        if not owners or counts.get(fkey, len(list(r_strslice.str_index_sites(P, owners[0])))) > int(nn):
            continue  # the site still exists where the ledger says
        F = owners[0]
        for G in slice_fns:
            if G.id == F.id or G.file != F.file or G.id not in cg.get(F.id, ()):
                continue
            for j in range(counts.get(G.key, 0)):
                kk = "%s str-slice#%d" % (G.key, j)
                if kk not in led2:
                    led2[kk] = (v[0], v[1] + " (site moved from %s)" % fkey)
                    rep.trusted.add("ledger/strslice.tsv: %s (adopted by %s)" % (k, kk))
                    break
    r_strslice.run(P, rep, slice_fns, led2)
    rep.analysed[rule + ".sites_in_scope"] = n
    return c
