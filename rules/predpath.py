"""Predicate-correlated path exploration (R-SIGN).

Question decided: on every path from the binding of an integer variable V to a use site, is V known to be
non-negative, or has a given action (here: push '-' onto the output) been performed?  A plain path search
reports infeasible paths as soon as the code tests `V < 0 && style != Space` and later
`V < 0 && style == Space`; so the walker carries, per path,
  * what is known about `V < 0` (from switches on `Lt(V, 0)` / `Ge(V, 0)` and on V itself),
  * the outcome of every pure equality test `eq/ne(&local, &CONST)` already taken on this path
    (`ne` is the negation of `eq` on the same operands),
and follows only consistent edges. Everything else branches freely (over-approximation: can only add
paths, i.e. can only make the code look worse, never better). Facts are dropped when V is re-bound.
"""
from mirutil import op_local, copy_root

LIMIT = 200000


def _promoted_const(P, fn, c):
    """('adt id', variant name) of a promoted `&Enum::Variant` constant operand, or a printable fallback."""
    if not isinstance(c, dict):
        return None
    if "promoted" in c and "uneval" in c:
        pid = "%s::{promoted#%d}" % (c["uneval"], c["promoted"])
        pf = P.fns.get(pid)
        if pf is not None:
            for b in pf.blocks:
                for st in b["s"]:
                    if st[0] == "a" and st[2]["k"] == "agg" and st[2].get("ak") == "adt":
                        return (st[2]["id"], st[2].get("vname"))
        return ("promoted", pid)
    if "val" in c:
        return ("val", c["val"])
    if "str" in c:
        return ("str", c["str"])
    return None


def sign_discipline(P, fn, use_pred, action_pred):
    """use_pred(t) -> operand of the call terminator t whose sign matters (or None);
    action_pred(t) -> True if call terminator t performs the sign action.
    Returns a list of (use block, path description) for paths that reach a use with V possibly negative and no action."""
    uses = {}
    for bi, b in enumerate(fn.blocks):
        t = b["t"]
        if t["k"] == "call" and t.get("f"):
            op = use_pred(t)
            if op is not None:
                ol = op_local(op)
                if ol:
                    uses[bi] = copy_root(fn, ol[0])
    out = []
    for ub, V in sorted(uses.items()):
        out += _explore(P, fn, V, ub, action_pred)
    return out, uses


def _explore(P, fn, V, use_block, action_pred):
    # temporaries with a meaning
    negtest = {}   # bool local -> +1 if true means V<0, -1 if true means V>=0
    predres = {}   # bool local -> (key, polarity)
    refs = {}      # local -> root local it references (`_x = &local`) or const key
    for b in fn.blocks:
        for st in b["s"]:
            if st[0] != "a" or st[1][1]:
                continue
            rv = st[2]
            if rv["k"] == "ref" and not rv["p"][1]:
                refs[st[1][0]] = ("local", copy_root(fn, rv["p"][0]))
            elif rv["k"] == "ref" and rv["p"][1] == [["d"]]:
                inner = rv["p"][0]
                refs[st[1][0]] = ("via", inner)
            elif rv["k"] == "use" and rv["o"][0] == "k":
                pc = _promoted_const(P, fn, rv["o"][1])
                if pc is not None:
                    refs[st[1][0]] = ("const", pc)
            elif rv["k"] == "bin" and rv["op"] in ("Lt", "Ge"):
                a = op_local(rv["a"])
                if a and copy_root(fn, a[0]) == V and rv["b"][0] == "k" and isinstance(rv["b"][1], dict) and rv["b"][1].get("val") == 0:
                    negtest[st[1][0]] = 1 if rv["op"] == "Lt" else -1

    def resolve(l, depth=4):
        r = refs.get(l)
        while r and r[0] == "via" and depth > 0:
            r = refs.get(r[1])
            depth -= 1
        return r

    for b in fn.blocks:
        t = b["t"]
        if t["k"] == "call" and t.get("f") and t["f"]["id"] in ("core::cmp::PartialEq::eq", "core::cmp::PartialEq::ne") and len(t["args"]) == 2:
            a, c = op_local(t["args"][0]), op_local(t["args"][1])
            if a and c and not t["d"][1]:
                ra, rc = resolve(a[0]), resolve(c[0])
                if ra and rc:
                    key = tuple(sorted([ra, rc], key=str))
                    predres[t["d"][0]] = (key, 1 if t["f"]["id"].endswith("::eq") else -1)
    # where V is (re)bound: non-copy definitions of V
    binds = set()
    for bi, b in enumerate(fn.blocks):
        for st in b["s"]:
            if st[0] == "a" and st[1][0] == V and not st[1][1]:
                binds.add(bi)
        t = b["t"]
        if t["k"] == "call" and t["d"][0] == V and not t["d"][1]:
            binds.add(bi)
    if not binds:
        binds = {0}
    bad = []
    seen = set()
    work = [(b0, None, False, frozenset(), (b0,)) for b0 in sorted(binds)]
    steps = 0
    while work:
        bi, neg, done, preds, trail = work.pop()
        key = (bi, neg, done, preds)
        if key in seen:
            continue
        seen.add(key)
        steps += 1
        if steps > LIMIT:
            return [(use_block, "exploration limit reached: not decided")]
        b = fn.blocks[bi]
        t = b["t"]
        if bi in binds and len(trail) > 1:
            continue  # V re-bound: a new episode starts from that binding (explored separately)
        if bi == use_block:
            if neg is not False and not done:
                bad.append((use_block, "V may be negative here and no sign was emitted on the path through blocks %s" % (list(trail[-12:]),)))
            continue
        k = t["k"]
        if k == "call":
            if t.get("f") and action_pred(t):
                done = True
            if t.get("t") is not None:
                work.append((t["t"], neg, done, preds, trail + (t["t"],)))
        elif k == "switch":
            ol = op_local(t["o"])
            s = ol[0] if ol and not ol[1] else None
            if s is not None and s not in negtest and s not in predres:
                r_ = copy_root(fn, s)
                if r_ in negtest or r_ in predres:
                    s = r_
            edges = [(v, tb) for v, tb in t["t"]] + [(None, t["else"])]
            if s in negtest:
                for v, tb in edges:
                    truth = (v != 0) if v is not None else True  # bool switch: [0 -> false], else -> true
                    isneg = truth if negtest[s] == 1 else (not truth)
                    if neg is None or neg == isneg:
                        work.append((tb, isneg, done, preds, trail + (tb,)))
            elif s in predres:
                pk, pol = predres[s]
                known = dict(preds).get(pk)
                for v, tb in edges:
                    truth = (v != 0) if v is not None else True
                    eqtruth = truth if pol == 1 else (not truth)
                    if known is None:
                        work.append((tb, neg, done, preds | {(pk, eqtruth)}, trail + (tb,)))
                    elif known == eqtruth:
                        work.append((tb, neg, done, preds, trail + (tb,)))
            elif s is not None and copy_root(fn, s) == V:
                for v, tb in edges:
                    if v is not None and v >= 0 and v < (1 << 62):
                        work.append((tb, False if neg is None else neg, done, preds, trail + (tb,)))
                    else:
                        work.append((tb, neg, done, preds, trail + (tb,)))
            else:
                for v, tb in edges:
                    work.append((tb, neg, done, preds, trail + (tb,)))
        elif k in ("goto", "drop", "assert"):
            work.append((t["t"], neg, done, preds, trail + (t["t"],)))
    return bad
