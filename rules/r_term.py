"""R-TERM / R-PARSECOST: termination by construction.

R-TERM   every natural loop in workspace code reachable from the parse (C01) or render (C02) entry
         points is *pull-driven*: its body pulls from a finite source (Iterator::next / next_back on a
         bounded iterator type, the pest-backed TagBlock / TagTokenIter readers) — or it is listed in
         TERM_LEDGER with its variant. A hand-written `while cond { .. }` whose progress depends on a
         template-controlled value (e.g. `find("")`) has no pull and is reported.
R-PARSECOST  no parse-reachable function consumes a `Range*<i64>`: the liquid integer type must not
         drive work at parse time (a literal `(1..9223372036854775807)` would hang or abort parsing).
Neither rule proves termination of the callee iterators themselves (std, pest: trusted base).
"""

PULLS = ("core::iter::traits::iterator::Iterator::next", "core::iter::traits::double_ended::DoubleEndedIterator::next_back")
WORKSPACE_PULLS = ("TagBlock::next", "TagBlock::parse_next", "TagTokenIter::next", "TagTokenIter::expect_next")
UNBOUNDED = ("core::iter::sources::repeat::Repeat", "core::iter::sources::repeat_with::RepeatWith", "core::iter::adapters::cycle::Cycle",
             "core::ops::range::RangeFrom", "core::iter::sources::successors::Successors", "core::iter::sources::from_fn::FromFn")

TERM_LEDGER = {
    # function key -> (reason, how many loops of that function it covers)
    "liquid_core::model::scalar::datetime::strftime::strftime":
        ("digit count of %N-style fields: `while v != 0 { v /= 10 }` — |v| strictly decreases", 1),
}


def natural_loops(P, fn):
    succ = P.succ(fn)
    pred = P.pred(fn)
    heads = {}
    for b in range(len(fn.blocks)):
        for s in succ[b]:
            if P.dominates(fn, s, b):
                heads.setdefault(s, set()).add(b)
    out = []
    for h, tails in sorted(heads.items()):
        seen = {h}
        work = list(tails)
        while work:
            x = work.pop()
            if x in seen:
                continue
            seen.add(x)
            work.extend(pred[x])
        out.append((h, seen))
    return out


def _norm(name):
    return name.replace("::<'a, 'b>", "").replace("::<'a>", "")


def run(P, rep, reach, which, rule="R-TERM"):
    n = 0
    used = {}
    for fid in sorted(reach):
        fn = P.fns.get(fid)
        if fn is None or not fn.crate.startswith("liquid") or "::test" in fn.id or fn.crate == "liquid_derive":
            continue
        for k, (h, body) in enumerate(natural_loops(P, fn)):
            n += 1
            site = "%s loop#%d" % (fn.key, k)
            where = P.where(fn, fn.blocks[h]["t"].get("line"))
            pulls, unbounded = [], []
            for b in sorted(body):
                t = fn.blocks[b]["t"]
                f = t.get("f") if t["k"] == "call" else None
                if not f:
                    continue
                if f["id"] in PULLS:
                    st = P.tstr(fn.crate, f["self_ty"]) if "self_ty" in f else "?"
                    if any(u in st for u in UNBOUNDED):
                        unbounded.append(st)
                    else:
                        pulls.append("next on " + st.split("<")[0].rsplit("::", 1)[-1])
                elif any(_norm(f["name"]).endswith(w) for w in WORKSPACE_PULLS):
                    pulls.append(_norm(f["name"]).rsplit("::", 2)[-2] + "::" + f["id"].rsplit("::", 1)[1])
            if pulls and not unbounded:
                rep.ok(rule, site, where, "pull-driven loop (%s)" % ", ".join(sorted(set(pulls))[:3]))
                continue
            led = TERM_LEDGER.get(fn.key)
            if led and used.get(fn.key, 0) < led[1] and not unbounded:
                used[fn.key] = used.get(fn.key, 0) + 1
                rep.ok(rule, site, where, "ledgered: " + led[0])
                rep.trusted.add("TERM_LEDGER: %s — %s" % (fn.key, led[0]))
                continue
            if unbounded:
                rep.viol(rule, site + " unbounded", where, "the loop pulls from an unbounded iterator (%s)" % unbounded[0])
            else:
                rep.viol(rule, site, where,
                         "this loop does not pull from a finite iterator or block/token reader: its termination depends on values "
                         "computed in the body (%s path) and it is not in the termination ledger" % which)
    rep.analysed[rule + ".loops_" + which] = n


def run_parse_cost(P, rep, parse_reach, rule="R-PARSECOST"):
    n = 0
    bad = 0
    for fid in sorted(parse_reach):
        fn = P.fns.get(fid)
        if fn is None or not fn.crate.startswith("liquid") or "::test" in fn.id or fn.crate == "liquid_derive":
            continue
        k = 0
        for bi, t in P.calls(fn):
            f = t.get("f")
            if not f or "self_ty" not in f:
                continue
            st = P.tstr(fn.crate, f["self_ty"])
            if st.startswith("core::ops::range::Range"):
                n += 1
                if "<i64>" in st or "<i128>" in st or "<u64>" in st:
                    bad += 1
                    rep.viol(rule, "%s %s#%d" % (fn.key, f["id"].rsplit("::", 1)[1], k), P.where(fn, t["line"]),
                             "parse-reachable code consumes a %s: a template integer drives work at parse time "
                             "(a huge literal range would hang or abort parsing)" % st.replace("core::ops::range::", ""))
                    k += 1
    if not bad:
        rep.ok(rule, "parse-reachable range consumers", "-", "%d range uses in parse-reachable workspace code, none over the liquid integer type" % n)
