"""Where does a local come from?  `self`-field origins and backward slices over MIR."""
from mirutil import op_local


class SelfOrigins:
    """For a method body (and, lazily, the closures it creates): map each local to the field
    path of `self` it refers to / was copied from.  Flow-insensitive, may-alias."""

    def __init__(self, P, fn, seed=None):
        self.P = P
        self.fn = fn
        self.org = {}  # local -> tuple(field indices) (possibly empty = self itself)
        if seed is not None:
            self.org.update(seed)
        elif fn.kind == "method":
            self.org[1] = ()
        self._solve()

    def place_origin(self, place):
        base, proj = place
        if base not in self.org:
            return None
        path = list(self.org[base])
        for p in proj:
            if p[0] == "f":
                path.append(p[1])
            elif p[0] in ("d", "v"):
                continue
            else:
                continue
        return tuple(path)

    def _solve(self):
        changed = True
        while changed:
            changed = False
            for b in self.fn.blocks:
                for st in b["s"]:
                    if st[0] != "a":
                        continue
                    lhs, rv = st[1], st[2]
                    if lhs[1]:
                        continue
                    o = None
                    if rv["k"] in ("use", "cast"):
                        ol = op_local(rv["o"])
                        if ol:
                            o = self.place_origin([ol[0], ol[1]])
                    elif rv["k"] in ("ref", "rawptr"):
                        o = self.place_origin(rv["p"])
                    if o is not None and lhs[0] not in self.org:
                        self.org[lhs[0]] = o
                        changed = True
                # Deref::deref / AsRef / Borrow on a self-field keeps the origin
                t = b["t"]
                if t["k"] == "call" and t.get("f") and not t["d"][1]:
                    nm = t["f"]["id"]
                    if nm in ("core::ops::deref::Deref::deref", "core::convert::AsRef::as_ref", "core::borrow::Borrow::borrow"):
                        ol = op_local(t["args"][0])
                        if ol:
                            o = self.place_origin([ol[0], ol[1]])
                            if o is not None and t["d"][0] not in self.org:
                                self.org[t["d"][0]] = o
                                changed = True

    def closures(self):
        """(closure Fn, SelfOrigins) for closures created in this body, upvars seeded."""
        out = []
        for b in self.fn.blocks:
            for st in b["s"]:
                if st[0] == "a" and st[2]["k"] == "agg" and st[2].get("ak") == "closure":
                    cid = st[2]["id"]
                    cf = self.P.fns.get(cid)
                    if cf is None:
                        continue
                    ups = []
                    for o in st[2]["ops"]:
                        ol = op_local(o)
                        ups.append(self.place_origin([ol[0], ol[1]]) if ol else None)
                    out.append((cf, ClosureOrigins(self.P, cf, ups)))
        return out

    def all_bodies(self):
        """This body and, transitively, its closures with their origin maps."""
        out = [(self.fn, self)]
        for cf, co in self.closures():
            out.extend(co.all_bodies())
        return out

    def fields_touched(self):
        s = set()
        for fn, so in self.all_bodies():
            for pl in places_of(fn):
                o = so.place_origin(pl)
                if o:
                    s.add(o[0])
        return s


class ClosureOrigins(SelfOrigins):
    def __init__(self, P, fn, upvar_origins):
        self.ups = upvar_origins
        SelfOrigins.__init__(self, P, fn, seed={})

    def place_origin(self, place):
        base, proj = place
        if base == 1:
            # _1 is the closure environment (by ref or by value): first field projection = upvar index
            k = None
            rest = []
            for i, p in enumerate(proj):
                if p[0] == "f":
                    k = p[1]
                    rest = proj[i + 1:]
                    break
            if k is None or k >= len(self.ups) or self.ups[k] is None:
                return None
            path = list(self.ups[k])
            for p in rest:
                if p[0] == "f":
                    path.append(p[1])
            return tuple(path)
        return SelfOrigins.place_origin(self, place)


def places_of(fn):
    for b in fn.blocks:
        for st in b["s"]:
            if st[0] == "a":
                yield st[1]
                rv = st[2]
                if "p" in rv:
                    yield rv["p"]
                for k in ("o", "a", "b"):
                    if k in rv and rv[k][0] in ("c", "m"):
                        yield rv[k][1]
                for o in rv.get("ops", []):
                    if o[0] in ("c", "m"):
                        yield o[1]
        t = b["t"]
        if t["k"] == "call":
            for a in t["args"]:
                if a[0] in ("c", "m"):
                    yield a[1]
            yield t["d"]
        elif t["k"] in ("switch", "assert"):
            if t["o"][0] in ("c", "m"):
                yield t["o"][1]
        elif t["k"] == "drop":
            yield t["p"]


def backward_slice(fn, local, max_iter=64):
    """Locals and callee names the value of `local` may depend on (flow-insensitive)."""
    locs = set()
    calls = []
    work = [local]
    while work:
        l = work.pop()
        if l in locs:
            continue
        locs.add(l)
        for b in fn.blocks:
            for st in b["s"]:
                if st[0] == "a" and st[1][0] == l:
                    rv = st[2]
                    for k in ("o", "a", "b"):
                        if k in rv and rv[k][0] in ("c", "m"):
                            work.append(rv[k][1][0])
                    if "p" in rv:
                        work.append(rv["p"][0])
                    for o in rv.get("ops", []):
                        if o[0] in ("c", "m"):
                            work.append(o[1][0])
            t = b["t"]
            if t["k"] == "call" and t["d"][0] == l:
                calls.append(t)
                for a in t["args"]:
                    if a[0] in ("c", "m"):
                        work.append(a[1][0])
    return locs, calls
