"""R-UNIT: byte lengths must not be used where the contract counts characters."""
from facts import LIB_CRATES
from mirutil import op_local
from taint import Taint
import r_arith

_cache = {}

SCOPE_PREFIX = (
    "liquid_lib::stdlib::filters::string::", "liquid_lib::stdlib::filters::slice::", "liquid_lib::stdlib::filters::",
    "liquid_core::model::find::",
)


def build(P):
    if id(P) in _cache:
        return _cache[id(P)]

    def source_call(fn, t):
        f = t["f"]
        last = f["id"].rsplit("::", 1)[1]
        nm = f["name"]
        if last == "len" and ("core::str::" in nm or "String::len" in nm or "KString" in nm or "kstring::" in nm or "str>::len" in nm):
            return {"bytes"}
        return set()

    def sanitize(fn, t):
        f = t["f"]
        last = f["id"].rsplit("::", 1)[1]
        # counts of characters / graphemes / elements are not byte quantities
        if last in ("count", "size", "chars", "graphemes", "char_indices", "is_empty", "to_string", "render", "to_kstr", "as_str",
                    "join", "collect", "split", "splitn", "trim", "to_owned", "into_owned", "get", "contains_key", "eq", "ne",
                    "partial_cmp", "cmp", "with_capacity", "reserve"):
            return True
        return False

    tn = Taint(P, LIB_CRATES, source_call, None, sanitize)
    _cache[id(P)] = tn
    return tn


def in_scope(fn):
    return fn.id.startswith(SCOPE_PREFIX) or (fn.key and "stdlib::filters::" in fn.key)


def run(P, rep, rule="R-UNIT"):
    tb = build(P)
    tu = r_arith.build(P)
    n = 0
    for fn in sorted(P.fns.values(), key=lambda f: f.id):
        if fn.crate not in LIB_CRATES or not in_scope(fn) or "::test" in fn.id:
            continue
        ordn = {}

        def site(kind):
            o = ordn.get(kind, 0)
            ordn[kind] = o + 1
            return "%s %s#%d" % (fn.key, kind, o)
        for bi, b in enumerate(fn.blocks):
            # comparisons / subtraction between a byte length and a user-supplied count
            for st in b["s"]:
                if st[0] != "a" or st[2]["k"] != "bin":
                    continue
                op = st[2]["op"].replace("WithOverflow", "")
                if op not in ("Lt", "Le", "Gt", "Ge", "Sub", "Eq", "Ne"):
                    continue
                ta_b = tb.tags_of_operand(fn.id, st[2]["a"])
                tb_b = tb.tags_of_operand(fn.id, st[2]["b"])
                ta_u = tu.tags_of_operand(fn.id, st[2]["a"])
                tb_u = tu.tags_of_operand(fn.id, st[2]["b"])
                if ("bytes" in ta_b and tb_u and "bytes" not in tb_b) or ("bytes" in tb_b and ta_u and "bytes" not in ta_b):
                    n += 1
                    rep.viol(rule, site("bytes-vs-count:" + op), P.where(fn, st[3]),
                             "a byte length (str::len) is %s a user-supplied character count: wrong for non-ASCII text"
                             % ("compared with" if op != "Sub" else "subtracted from / with"))
            t = b["t"]
            if t["k"] != "call" or not t.get("f"):
                continue
            f = t["f"]
            last = f["id"].rsplit("::", 1)[1]
            nm = f["name"]
            # a byte length returned as the value's size
            if nm.endswith("Value::scalar") and t["args"]:
                ol0 = op_local(t["args"][0])
                if "bytes" in tb.tags_of_operand(fn.id, t["args"][0]) and ol0 and r_arith.is_int(P.local_ty(fn, ol0[0])):
                    n += 1
                    rep.viol(rule, site("bytes-as-size"), P.where(fn, t["line"]),
                             "a byte length (str::len) is returned as the value's size: `size` must count characters")
            # a byte length steering a character iterator
            if last in ("skip", "take", "nth", "step_by") and "self_ty" in f:
                st_ = P.tstr(fn.crate, f["self_ty"])
                if ("Chars" in st_ or "Graphemes" in st_ or "CharIndices" in st_) and len(t["args"]) > 1:
                    if "bytes" in tb.tags_of_operand(fn.id, t["args"][1]):
                        n += 1
                        rep.viol(rule, site("bytes-into-" + last), P.where(fn, t["line"]),
                                 "a quantity derived from a byte length drives %s() on a character iterator" % last)
            # a byte length passed as the element count of the window computation
            if f["id"].endswith("slice::canonicalize_slice") and len(t["args"]) > 2:
                if "bytes" in tb.tags_of_operand(fn.id, t["args"][2]):
                    n += 1
                    rep.viol(rule, site("bytes-as-length"), P.where(fn, t["line"]),
                             "the slice window is clamped against the byte length of the string but applied to its characters")
    rep.count(rule + ".scan")
    rep.analysed[rule + ".violations_found"] = n


FORBID_SPLIT = ("pop", "retain", "filter", "dedup", "truncate", "skip_while", "take_while", "rev", "split_terminator", "split_whitespace",
                "rsplit", "trim_end_matches", "trim_start_matches", "strip_suffix", "strip_prefix", "splitn", "rsplitn", "skip", "take",
                "trim", "trim_start", "trim_end", "trim_matches", "trim_ascii", "trim_ascii_start", "trim_ascii_end")


def run_split_join(P, rep, rule="R-SPLITJOIN"):
    """split keeps every field str::split yields (so that join on the same separator is its inverse)."""
    key = "<liquid_lib::stdlib::filters::string::SplitFilter as liquid_core::parser::filter::Filter>::evaluate"
    fn = P.fn_by_key(key)
    from origins import SelfOrigins
    lasts = []
    for body, _ in SelfOrigins(P, fn, seed={}).all_bodies():
        lasts += [t["f"]["id"].rsplit("::", 1)[1] for bi, t in P.calls(body) if t.get("f")]
    bad = [x for x in lasts if x in FORBID_SPLIT]
    if "split" not in lasts:
        rep.viol(rule, "split", P.where(fn), "str::split(pattern) is not what produces the fields")
    elif bad:
        rep.viol(rule, "split", P.where(fn), "the input or the fields produced by str::split are post-processed / tested through %s: fields (or whitespace-only inputs) can be lost, so join no longer inverts split" % sorted(set(bad)))
    else:
        rep.ok(rule, "split", P.where(fn), "result = input.split(pattern) collected as is")
    jk = "<liquid_lib::stdlib::filters::array::JoinFilter as liquid_core::parser::filter::Filter>::evaluate"
    jf = P.fn_by_key(jk)
    jl = []
    for body, _ in SelfOrigins(P, jf, seed={}).all_bodies():
        jl += [t["f"]["id"].rsplit("::", 1)[1] for bi, t in P.calls(body) if t.get("f")]
    badj = [x for x in jl if x in ("filter", "skip", "take", "trim", "dedup", "rev", "skip_while", "filter_map")]
    if "join" not in jl or badj:
        rep.viol(rule, "join", P.where(jf), "join drops or alters elements (%s)" % (sorted(set(badj)) or "no itertools::join"))
    else:
        rep.ok(rule, "join", P.where(jf), "itertools::join over every element's to_kstr")


def run_truncate_decision(P, rep, rule="R-TRUNC"):
    """truncate returns the input unchanged unless it is longer than the LIMIT itself."""
    key = "<liquid_lib::stdlib::filters::string::truncate::TruncateFilter as liquid_core::parser::filter::Filter>::evaluate"
    fn = P.fn_by_key(key)
    from origins import backward_slice
    from mirutil import named_local
    lim = named_local(fn, "length")
    # the branch that decides between truncating and returning input.to_value()
    tv = [bi for bi, t in P.calls(fn) if t.get("f") and t["f"]["id"].endswith("ValueView::to_value")]
    if not tv or not lim:
        rep.anchor_missing(rule, "truncate: input.to_value() branch / `length`")
        return
    found = None
    for ci, b in enumerate(fn.blocks):
        t = b["t"]
        if t["k"] != "switch" or not P.dominates(fn, ci, tv[0]):
            continue
        ol = op_local(t["o"])
        for st in b["s"]:
            if st[0] == "a" and ol and st[1][0] == ol[0] and st[2]["k"] == "bin" and st[2]["op"] in ("Lt", "Le", "Gt", "Ge"):
                found = (ci, st)
    if found is None:
        rep.viol(rule, "truncate decision", P.where(fn), "no comparison decides whether the input is truncated")
        return
    ci, st = found
    sides = []
    for k in ("a", "b"):
        ol = op_local(st[2][k])
        locs, calls = backward_slice(fn, ol[0]) if ol else (set(), [])
        arith = any(s2[0] == "a" and s2[1][0] in locs and s2[2]["k"] == "bin" and s2[2]["op"].replace("WithOverflow", "") in ("Sub", "Add")
                    for b2 in fn.blocks for s2 in b2["s"])
        cl = [c["f"]["id"].rsplit("::", 1)[1] for c in calls if c.get("f")]
        arith = arith or any(x.endswith(("_sub", "_add")) or x in ("min", "max", "clamp") for x in cl)
        sides.append((bool(set(lim) & locs), arith, cl))
    lim_side = [s for s in sides if s[0]]
    if not lim_side:
        rep.viol(rule, "truncate decision", P.where(fn, st[3]), "the truncation test does not involve the limit")
    elif any(s[1] for s in lim_side):
        rep.viol(rule, "truncate decision", P.where(fn, st[3]),
                 "the truncation test compares the input with a value computed from the limit (limit - ellipsis) instead of the limit: inputs that fit are truncated")
    else:
        rep.ok(rule, "truncate decision", P.where(fn, st[3]), "input is returned unchanged unless longer than the limit itself")
    # what is kept in front of the ellipsis is limit - ellipsis, floored at zero: every value that can reach `take(..)` is a
    # difference or the constant 0 — never the limit itself (then limit + ellipsis characters come out)
    from mirutil import defs_of
    takes = [t for bi, t in P.calls(fn) if t.get("f") and t["f"]["id"].rsplit("::", 1)[1] == "take" and len(t["args"]) > 1]
    for k, t in enumerate(takes):
        leaves, work, seen = [], [op_local(t["args"][1])], set()
        while work:
            ol = work.pop()
            if not ol or ol[0] in seen:
                continue
            seen.add(ol[0])
            ds = defs_of(fn, ol[0])
            if not ds:
                leaves.append(("param", None))
            for kind, bi, si, d in ds:
                if kind == "c":
                    last = d["f"]["id"].rsplit("::", 1)[1] if d.get("f") else "?"
                    if last in ("max", "min", "clone", "into", "from"):
                        work += [op_local(a) for a in d["args"]]
                        leaves += [("const", a[1].get("val")) for a in d["args"] if a[0] == "k"]
                    else:
                        leaves.append(("call", last))
                elif d["k"] in ("use", "cast"):
                    if d["o"][0] == "k":
                        leaves.append(("const", d["o"][1].get("val")))
                    else:
                        o2 = op_local(d["o"])
                        if o2 and o2[1]:
                            work.append((o2[0], []))   # value half of a checked operation
                        else:
                            work.append(o2)
                elif d["k"] == "bin":
                    leaves.append(("bin", d["op"].replace("WithOverflow", "")))
                else:
                    leaves.append((d["k"], None))
        bad = [l for l in leaves if not (l == ("const", 0) or l == ("bin", "Sub") or (l[0] == "call" and str(l[1]).endswith("_sub")))]
        if bad:
            rep.viol(rule, "truncate kept-count#%d" % k, P.where(fn, t["line"]),
                     "the number of characters kept in front of the ellipsis can be %s — not (limit - ellipsis) or 0: with a limit shorter than the ellipsis the "
                     "result is longer than both" % (bad[0],))
        else:
            rep.ok(rule, "truncate kept-count#%d" % k, P.where(fn, t["line"]), "take(n): n is limit - ellipsis or 0 on every path")


# ---------------------------------------------------------------------------------------
# R-UNITMIX: a character count and a byte offset are never compared or combined

_mix_cache = {}


def build_mix(P):
    if id(P) in _mix_cache:
        return _mix_cache[id(P)]

    def source_call(fn, t):
        f = t["f"]
        last = f["id"].rsplit("::", 1)[1]
        st_ = P.tstr(fn.crate, f["self_ty"]) if "self_ty" in f else ""
        nm = f["name"]
        if last == "count" and ("str::iter::Chars" in st_ or "Graphemes" in st_):
            return {"chars"}
        if last == "len" and ("core::str::" in nm or "String::len" in nm or "KString" in nm or "kstring::" in nm or "str>::len" in nm):
            return {"bytes"}
        if last in ("next", "next_back") and "CharIndices" in st_:
            return {"bytes"}
        if last in ("find", "rfind", "len_utf8") and ("core::str::" in nm or "str>::" in nm or "char" in nm):
            return {"bytes"}
        return set()

    def sanitize(fn, t):
        last = t["f"]["id"].rsplit("::", 1)[1]
        return last in ("to_string", "render", "to_kstr", "as_str", "join", "collect", "split", "splitn", "trim", "to_owned", "into_owned",
                        "get", "contains_key", "eq", "ne", "partial_cmp", "cmp", "is_empty", "chars", "graphemes", "char_indices",
                        "with_capacity", "reserve", "new", "push", "push_str")

    tn = Taint(P, LIB_CRATES, source_call, None, sanitize)
    _mix_cache[id(P)] = tn
    return tn


def run_unit_mix(P, rep, only=None, rule="R-UNITMIX"):
    """In the string/html/url filters a value counted in characters (chars().count(), graphemes().count()) is never compared with,
    added to or subtracted from a value measured in bytes (str::len, char_indices offsets, find results, len_utf8)."""
    tm = build_mix(P)
    n = 0
    bad = 0
    for fn in sorted(P.fns.values(), key=lambda f: f.id):
        if fn.crate not in LIB_CRATES or not in_scope(fn) or "::test" in fn.id:
            continue
        if only and not any(o in fn.id for o in only):
            continue
        k = 0
        for b in fn.blocks:
            for st in b["s"]:
                if st[0] != "a" or st[2]["k"] != "bin":
                    continue
                op = st[2]["op"].replace("WithOverflow", "").replace("Unchecked", "")
                if op not in ("Lt", "Le", "Gt", "Ge", "Sub", "Add", "Eq", "Ne"):
                    continue
                ta, tb_ = tm.tags_of_operand(fn.id, st[2]["a"]), tm.tags_of_operand(fn.id, st[2]["b"])
                if not ta and not tb_:
                    continue
                n += 1
                if ("chars" in ta and "bytes" in tb_ and "chars" not in tb_ and "bytes" not in ta) or \
                   ("bytes" in ta and "chars" in tb_ and "chars" not in ta and "bytes" not in tb_):
                    bad += 1
                    rep.viol(rule, "%s %s#%d" % (fn.key, op, k), P.where(fn, st[3]),
                             "a character count is %s a byte offset/length: the two differ as soon as the text is not ASCII" % (
                                 "compared with" if op in ("Lt", "Le", "Gt", "Ge", "Eq", "Ne") else "combined with"))
                    k += 1
    if not bad:
        rep.ok(rule, "unit scan" + (" " + ",".join(only) if only else ""), "-", "%d comparisons/sums over unit-carrying values; none mixes characters with bytes" % n)
    rep.count(rule + ".ops", n)


# ---------------------------------------------------------------------------------------
# R-NOCLAMP.slice: an offset before the start of the input stays out of range

def run_slice_window(P, rep, rule="R-NOCLAMP.slice"):
    """canonicalize_slice caps the offset from above only (`min(offset, len)`) and turns a negative offset into `offset + len`:
    it never folds an offset that reaches before the start onto 0 (`max(0, ..)`, `clamp`, `abs`, `rem_euclid`, wrapping arithmetic),
    so `'abcd' | slice: -6, 3` selects nothing rather than a prefix."""
    fns = P.by_key("liquid_lib::stdlib::filters::slice::canonicalize_slice")
    if len(fns) != 1:
        rep.anchor_missing(rule, "canonicalize_slice")
        return
    fn = fns[0]
    bad = []
    for bi, t in P.calls(fn):
        f = t.get("f")
        if f and f["id"].rsplit("::", 1)[1] in ("max", "clamp", "abs", "unsigned_abs", "rem_euclid", "wrapping_add", "wrapping_sub", "wrapping_neg",
                                               "saturating_sub", "checked_rem_euclid", "max_by", "max_by_key"):
            bad.append((f["name"], t["line"]))
    rems = [(st[2]["op"], st[3]) for b in fn.blocks for st in b["s"] if st[0] == "a" and st[2]["k"] == "bin" and st[2]["op"] in ("Rem", "BitAnd")]
    if bad or rems:
        nm, line = (bad + rems)[0]
        rep.viol(rule, "canonicalize_slice", P.where(fn, line),
                 "the slice window is computed with `%s`: an offset before the start of the input is folded onto an existing position instead of selecting nothing" % nm)
    else:
        rep.ok(rule, "canonicalize_slice", P.where(fn), "offset capped from above only; negative offsets become offset + len; no lower clamp / wrap")
