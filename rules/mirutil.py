"""Small MIR helpers shared by rules."""


def op_local(op):
    if op[0] in ("c", "m"):
        return op[1][0], op[1][1]
    return None


def op_const(op):
    if op[0] == "k":
        return op[1]
    return None


def callee_name(t):
    f = t.get("f")
    return f["name"] if f else None


def callee_decl(t):
    f = t.get("f")
    return f["id"] if f else None


def method_name(t):
    f = t.get("f")
    return f["id"].rsplit("::", 1)[1] if f else None


def alias_closure(fn, roots):
    """Locals that are copies of / references to / reborrows of the root locals (flow-insensitive)."""
    al = set(roots)
    changed = True
    while changed:
        changed = False
        for b in fn.blocks:
            for st in b["s"]:
                if st[0] != "a":
                    continue
                lhs, rv = st[1], st[2]
                if lhs[1]:
                    continue
                src = None
                if rv["k"] == "use":
                    ol = op_local(rv["o"])
                    if ol and all(p[0] == "d" for p in ol[1]):
                        src = ol[0]
                elif rv["k"] in ("ref", "rawptr"):
                    if all(p[0] == "d" for p in rv["p"][1]):
                        src = rv["p"][0]
                elif rv["k"] == "cast":
                    ol = op_local(rv["o"])
                    if ol and not ol[1]:
                        src = ol[0]
                if src is not None and src in al and lhs[0] not in al:
                    al.add(lhs[0])
                    changed = True
    return al


def calls_using(fn, locals_):
    """(block, terminator, arg positions) of calls with an argument in the given local set."""
    out = []
    for bi, b in enumerate(fn.blocks):
        t = b["t"]
        if t["k"] != "call":
            continue
        pos = []
        for k, a in enumerate(t["args"]):
            ol = op_local(a)
            if ol and ol[0] in locals_ and all(p[0] == "d" for p in ol[1]):
                pos.append(k)
        if pos:
            out.append((bi, t, pos))
    return out


def named_local(fn, name):
    """Locals whose debug name is `name` (whole-local entries only)."""
    return [pl[0] for nm, pl in fn.names if nm == name and not pl[1]]


def local_name(fn, local):
    for nm, pl in fn.names:
        if pl[0] == local and not pl[1]:
            return nm
    return None


def defs_of(fn, local):
    """All definitions of a whole local: ('a', block, stmt idx, rvalue) / ('c', block, term)."""
    out = []
    for bi, b in enumerate(fn.blocks):
        for si, st in enumerate(b["s"]):
            if st[0] == "a" and st[1][0] == local and not st[1][1]:
                out.append(("a", bi, si, st[2]))
        t = b["t"]
        if t["k"] == "call" and t["d"][0] == local and not t["d"][1]:
            out.append(("c", bi, None, t))
    return out


def copy_root(fn, local, depth=16):
    """Follow single-definition plain moves/copies back to the originating local."""
    cur = local
    for _ in range(depth):
        ds = defs_of(fn, cur)
        if len(ds) != 1 or ds[0][0] != "a":
            return cur
        rv = ds[0][3]
        if rv["k"] == "use":
            ol = op_local(rv["o"])
            if ol and not ol[1]:
                cur = ol[0]
                continue
        return cur
    return cur


def all_operands(fn):
    """Yield every operand appearing in the body (statements and terminators)."""
    for b in fn.blocks:
        for st in b["s"]:
            if st[0] == "a":
                rv = st[2]
                for k in ("o", "a", "b"):
                    if k in rv:
                        yield rv[k]
                for o in rv.get("ops", []):
                    yield o
        t = b["t"]
        if t["k"] == "call":
            for a in t["args"]:
                yield a
        elif t["k"] in ("switch", "assert"):
            yield t["o"]
