#!/usr/bin/env python3
"""tryedit.py <edit-id|seed-id|patch file|dir with patch.diff> <prop>: apply a selftest edit / seed to a scratch copy and show the check's output."""
import json, os, subprocess, sys, tempfile, shutil
V = os.path.dirname(os.path.dirname(os.path.abspath(__file__)))
eid, prop = sys.argv[1], sys.argv[2]
scratch = tempfile.mkdtemp(prefix="lr-try-", dir="/var/tmp")
try:
    subprocess.check_call(["rsync", "-a", "--exclude", "target", "--exclude", ".git", "/repo/", scratch + "/"])
    sd = os.path.join(V, "seeded", eid)
    if os.path.isfile(eid) or os.path.isfile(os.path.join(eid, "patch.diff")):
        pf = eid if os.path.isfile(eid) else os.path.join(eid, "patch.diff")
        subprocess.check_call(["patch", "-p1", "-s", "-f", "-d", scratch, "-i", os.path.abspath(pf)])
    elif os.path.isdir(sd):
        subprocess.check_call(["patch", "-p1", "-s", "-f", "-d", scratch, "-i", os.path.join(sd, "patch.diff")])
    else:
        e = [x for x in json.load(open(os.path.join(V, "selftest", "edits.json"))) if x["id"] == eid][0]
        p = os.path.join(scratch, e["file"])
        s = open(p).read()
        assert s.count(e["old"]) == 1
        s = s.replace(e["old"], e["new"])
        for o2, n2 in e.get("more", []):
            s = s.replace(o2, n2)
        open(p, "w").write(s)
    env = dict(os.environ, LR_REPO=scratch, LR_TARGET_SLOT="-st0", LR_EVIDENCE_DIR=scratch + "/.ev")
    out = subprocess.run([os.path.join(V, "check"), prop], cwd=V, env=env, capture_output=True, text=True)
    print(out.stdout[-3000:])
    print(out.stderr[-1500:])
    for f in os.listdir(scratch + "/.ev/replay") if os.path.isdir(scratch + "/.ev/replay") else []:
        d = json.load(open(scratch + "/.ev/replay/" + f))
        if d["rule"] == "INTERNAL":
            print(d["what"])
finally:
    shutil.rmtree(scratch, ignore_errors=True)
