#!/usr/bin/env python3
"""Record the rule-instance counts of the evidence files as floors (run only after the
instances listed in the evidence were reviewed by hand on the pinned tree)."""
import json, sys, os
V = os.path.dirname(os.path.dirname(os.path.abspath(__file__)))
fl = json.load(open(V + "/ledger/floors.json"))
for p in sys.argv[1:]:
    ev = json.load(open(V + "/evidence/%s.json" % p))
    c = {}
    for k, v in ev["coverage"]["rule_instance_counts"].items():
        if k == "FLOOR" or ".delegated" in k or ".untainted" in k or k in ("R-DIV", "R-UNIT"):
            continue  # census counts that legitimately shrink when code gets safer
        # A floor only guards against a rule going (nearly) vacuous — a renamed anchor, a pattern that stopped matching.
        # Instance counts legitimately shrink under behaviour-preserving edits (two writes merged into one, a loop replaced
        # by an iterator adaptor, duplicated code folded into a helper), so every floor is half the reviewed count.
        v = max(1, v // 2)
        c[k] = v
    fl[p] = c
json.dump(fl, open(V + "/ledger/floors.json", "w"), indent=1, sort_keys=True)
print(json.dumps({p: fl[p] for p in sys.argv[1:]}, indent=1))
