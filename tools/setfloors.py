#!/usr/bin/env python3
"""Record the rule-instance counts of the evidence files as floors (run only after the
instances listed in the evidence were reviewed by hand on the pinned tree)."""
import json, sys, os
V = os.path.dirname(os.path.dirname(os.path.abspath(__file__)))
fl = json.load(open(V + "/ledger/floors.json"))
for p in sys.argv[1:]:
    ev = json.load(open(V + "/evidence/%s.json" % p))
    c = {k: v for k, v in ev["coverage"]["rule_instance_counts"].items() if k != "FLOOR"}
    fl[p] = c
json.dump(fl, open(V + "/ledger/floors.json", "w"), indent=1, sort_keys=True)
print(json.dumps({p: fl[p] for p in sys.argv[1:]}, indent=1))
