#!/usr/bin/env python3
"""Record the component signatures of every format_description! constant of the date model (run after reviewing them
against the documented list of accepted syntaxes in datetime.rs / date.rs)."""
import json, os, sys
V = os.path.dirname(os.path.dirname(os.path.abspath(__file__)))
sys.path.insert(0, V + "/rules")
import facts, r_table  # noqa: E402
P = facts.load("all")
sig = r_table.date_format_signatures(P)
json.dump(sig, open(V + "/ledger/date_formats.json", "w"), indent=1, sort_keys=True)
print({k: len(v) for k, v in sig.items()})
