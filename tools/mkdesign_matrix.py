#!/usr/bin/env python3
"""Rewrite the seed table of DESIGN.md §7 from seeded/*/meta.json (written by tools/seedmatrix.py)."""
import json, os
V = os.path.dirname(os.path.dirname(os.path.abspath(__file__)))
N = {"C16-c", "C17-d", "C14-d", "C13-h", "C06-h"}
rows = []
for d in sorted(os.listdir(V + "/seeded")):
    mp = os.path.join(V, "seeded", d, "meta.json")
    if not os.path.exists(mp):
        continue
    m = json.load(open(mp))
    prop = m["property"]
    rules = [r for r in (m.get("detected_by") or {}).get(prop, []) if r not in ("INTERNAL", "FACTS")]
    conf = m.get("confirmed_by_main_session") or {}
    ok = all(conf.get(k) for k in ("patch_applies", "demo_passes_unchanged", "demo_fails_with_change", "existing_suite_passes_with_change")) if conf else None
    verdict = "DETECTED" if rules else ("N (see below)" if d in N else "MISSED")
    rows.append("| %s | %s | %s | %s | %s |" % (d, prop, verdict, ", ".join(rules), "yes" if ok else ("pending" if ok is None else "NO")))
tbl = "| seed | property | verdict | rules that fire | confirmed |\n|---|---|---|---|---|\n" + "\n".join(rows) + "\n\n"
tail = open(V + "/tools/design_section7_tail.md").read()
p = V + "/DESIGN.md"
s = open(p).read()
a = s.index("each to a scratch copy (never to `/repo`) and runs its property's check:\n") + len("each to a scratch copy (never to `/repo`) and runs its property's check:\n")
b = s.index("**Scripted edits.**")
s = s[:a] + "\n" + tbl + tail + "\n" + s[b:]
open(p, "w").write(s)
print(len(rows), "rows")
