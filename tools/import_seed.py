#!/usr/bin/env python3
"""import_seed.py Cxx v: copy /var/tmp/seed/Cxx/v into /verif/seeded/Cxx-v (patch, demo, meta)."""
import json, os, shutil, sys
pid, v = sys.argv[1], sys.argv[2]
src = "/var/tmp/seed/%s/%s" % (pid, v)
dst = "/verif/seeded/%s-%s" % (pid, v)
os.makedirs(dst, exist_ok=True)
reb = os.path.join(src, "patch.rebased.diff")
shutil.copy(reb if os.path.exists(reb) else os.path.join(src, "patch.diff"), os.path.join(dst, "patch.diff"))
shutil.copy(os.path.join(src, "demo.rs"), os.path.join(dst, "demo.rs"))
m = json.load(open(os.path.join(src, "meta.json")))
old = json.load(open(os.path.join(dst, "meta.json"))) if os.path.exists(os.path.join(dst, "meta.json")) else {}
out = {"property": pid, "variant": v, "summary": m.get("summary"), "needs_to_manifest": m.get("needs_to_manifest"),
       "files_touched": m.get("files_touched"),
       "author": "independent sub-agent given only the property text%s and a scratch worktree" % (" (round 2: plus the two earlier summaries to avoid)" if v in "cd" else " (round 3: plus the four earlier summaries to avoid)" if v in "ef" else " (round 4: plus the six earlier summaries to avoid)" if v in "gh" else " (round 5: plus the eight earlier summaries to avoid)" if v in "ij" else " (round 6: plus the ten earlier summaries to avoid)" if v in "kl" else " (round 7: plus the twelve earlier summaries to avoid)" if v in "mn" else " (round 8, time-boxed: plus the fourteen earlier summaries to avoid)" if v in "op" else ""),
       "author_ran": m.get("ran")}
for k in ("detected_by", "detected", "violation_keys", "confirmed_by_main_session", "declared_not_decided"):
    if k in old:
        out[k] = old[k]
cf = os.path.join(src, "confirm.json")
if os.path.exists(cf):
    c = json.load(open(cf))
    out["confirmed_by_main_session"] = {"repo_head": c["repo_head"], "command": "tools/confirm_seed.sh %s %s (scratch worktree of /repo HEAD)" % (pid, v),
        "patch_applies": c["patch_applies"] == 0, "demo_passes_unchanged": c["demo_on_unchanged_exit"] == 0,
        "demo_fails_with_change": c["demo_with_change_exit"] != 0,
        "existing_suite_passes_with_change": c["suite_with_change_exit"] == 0 and c["suite_failed_tests"] == 0}
json.dump(out, open(os.path.join(dst, "meta.json"), "w"), indent=1)
