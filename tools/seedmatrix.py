#!/usr/bin/env python3
"""Run the quick check of every seeded change's property against a scratch copy of /repo with the change
applied (never touching /repo), and record which rules fire.  Usage: seedmatrix.py [--all-props] [ids...]"""
import json, os, re, shutil, subprocess, sys, tempfile
V = os.path.dirname(os.path.dirname(os.path.abspath(__file__)))
SEEDED = "/verif/seeded"
args = [a for a in sys.argv[1:] if not a.startswith("--")]
allprops = "--all-props" in sys.argv
ids = sorted(d for d in os.listdir(SEEDED) if os.path.isdir(os.path.join(SEEDED, d)) and (not args or d in args))
ENV = env = dict(os.environ)
env.setdefault("LR_CACHE", "/verif/.cache")
env.setdefault("LR_DRIVER", "/verif/driver/target/release/lrfacts")
env.setdefault("LR_PESTFACTS", "/verif/pestfacts/target/release/pestfacts")
env["LR_TARGET_SLOT"] = "-seed"
env["LR_EVIDENCE_DIR"] = "/var/tmp/lr-evidence-seed"
props = [json.loads(l)["id"] for l in open(os.path.join(V, "properties.jsonl"))]
jobs = 1
for a in sys.argv[1:]:
    if a.startswith("--jobs="):
        jobs = int(a.split("=")[1])
rows = []


def one(arg):
    wi, sid = arg
    env = dict(ENV)
    env["LR_TARGET_SLOT"] = "-seed%d" % wi
    env["LR_EVIDENCE_DIR"] = "/var/tmp/lr-evidence-seed%d" % wi
    rows = []
    own = []
    d = os.path.join(SEEDED, sid)
    meta = json.load(open(os.path.join(d, "meta.json")))
    prop = meta["property"]
    scratch = tempfile.mkdtemp(prefix="lr-seed-", dir="/var/tmp")
    try:
        subprocess.check_call(["rsync", "-a", "--exclude", "target", "--exclude", ".git", "/repo/", scratch + "/"])
        r = subprocess.run(["git", "apply", "--unsafe-paths", "--directory=" + scratch, os.path.join(d, "patch.diff")], cwd="/", capture_output=True, text=True)
        if r.returncode != 0:
            r = subprocess.run(["patch", "-p1", "-d", scratch, "-i", os.path.join(d, "patch.diff")], capture_output=True, text=True)
        if r.returncode != 0:
            rows.append((sid, prop, "PATCH-DOES-NOT-APPLY", []))
            return rows[-1]
        env["LR_REPO"] = scratch
        res = {}
        for p in (props if allprops else [prop]):
            out = subprocess.run([os.path.join(V, "check"), p, "--tier", "quick"], cwd=V, env=env, capture_output=True, text=True).stdout
            keys = re.findall(r"^  key=(.*)$", out, re.M)
            res[p] = sorted(set(k.split("|")[0] for k in keys if not k.startswith("FLOOR")))
            if p == prop:
                own = keys
        real = [r_ for r_ in res.get(prop, []) if r_ not in ("INTERNAL", "FACTS")]
        detected = bool(real)
        meta["detected_by"] = res
        meta["detected"] = detected
        meta["violation_keys"] = own[:6]
        json.dump(meta, open(os.path.join(d, "meta.json"), "w"), indent=1)
        rows.append((sid, prop, "DETECTED" if detected else ("CHECK-ERROR" if res.get(prop) else "MISSED"), res.get(prop, [])))
    finally:
        shutil.rmtree(scratch, ignore_errors=True)
    print(rows[-1], flush=True)
    return rows[-1]


from multiprocessing.pool import ThreadPool
import itertools
pool = ThreadPool(jobs)
counter = itertools.count()
import threading
_slots = {}


def run(sid):
    tid = threading.get_ident()
    if tid not in _slots:
        _slots[tid] = len(_slots)
    return one((_slots[tid], sid))


rows = pool.map(run, ids, chunksize=1)
print("\n| seed | property | verdict | rules that fire |\n|---|---|---|---|")
for sid, prop, v, rules in rows:
    print("| %s | %s | %s | %s |" % (sid, prop, v, ", ".join(rules)))
