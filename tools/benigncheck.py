#!/usr/bin/env python3
"""benigncheck.py <dir-with-patch.diff>...: apply a behaviour-preserving refactoring to a scratch copy of /repo and run
every property's quick check; any VIOLATION is a false alarm to be triaged."""
import json, os, re, shutil, subprocess, sys, tempfile
V = os.path.dirname(os.path.dirname(os.path.abspath(__file__)))
props = [json.loads(l)["id"] for l in open(os.path.join(V, "properties.jsonl"))]
for d in sys.argv[1:]:
    scratch = tempfile.mkdtemp(prefix="lr-benign-", dir="/var/tmp")
    try:
        subprocess.check_call(["rsync", "-a", "--exclude", "target", "--exclude", ".git", "/repo/", scratch + "/"])
        r = subprocess.run(["patch", "-p1", "-s", "-f", "-d", scratch, "-i", os.path.join(d, "patch.diff")], capture_output=True, text=True)
        if r.returncode != 0:
            print(d, "PATCH-DOES-NOT-APPLY")
            continue
        env = dict(os.environ, LR_REPO=scratch, LR_TARGET_SLOT="-bn", LR_EVIDENCE_DIR=scratch + "/.ev")
        alarms = []
        for p in props:
            out = subprocess.run([os.path.join(V, "check"), p], cwd=V, env=env, capture_output=True, text=True).stdout
            for m in re.finditer(r"^  key=(.*)\n  (.*)$", out, re.M):
                alarms.append((p, m.group(1), m.group(2)[:160]))
        print(d, "ALARMS:" if alarms else "silent", flush=True)
        seen = set()
        for p, k, w in alarms:
            if k in seen:
                continue
            seen.add(k)
            print("   ", p, k[:150], "\n        ", w)
    finally:
        shutil.rmtree(scratch, ignore_errors=True)
