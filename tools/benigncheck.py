#!/usr/bin/env python3
"""benigncheck.py [--jobs=N] <dir-with-patch.diff>...: apply a behaviour-preserving refactoring to a scratch copy of /repo and run
every property's quick check; any VIOLATION is a false alarm to be triaged."""
import json, os, re, shutil, subprocess, sys, tempfile, threading
from multiprocessing.pool import ThreadPool
V = os.path.dirname(os.path.dirname(os.path.abspath(__file__)))
props = [json.loads(l)["id"] for l in open(os.path.join(V, "properties.jsonl"))]
jobs = 1
dirs = []
for a in sys.argv[1:]:
    if a.startswith("--jobs="):
        jobs = int(a.split("=")[1])
    else:
        dirs.append(a)
_slots = {}
_lock = threading.Lock()


def one(d):
    with _lock:
        tid = threading.get_ident()
        if tid not in _slots:
            _slots[tid] = len(_slots)
        slot = _slots[tid]
    scratch = tempfile.mkdtemp(prefix="lr-benign-", dir="/var/tmp")
    lines = []
    try:
        subprocess.check_call(["rsync", "-a", "--exclude", "target", "--exclude", ".git", "/repo/", scratch + "/"])
        r = subprocess.run(["patch", "-p1", "-s", "-f", "-d", scratch, "-i", os.path.join(d, "patch.diff")], capture_output=True, text=True)
        if r.returncode != 0:
            lines.append("%s PATCH-DOES-NOT-APPLY" % d)
            return lines
        env = dict(os.environ, LR_REPO=scratch, LR_TARGET_SLOT="-bn%d" % slot, LR_EVIDENCE_DIR=scratch + "/.ev")
        alarms = []
        for p in props:
            out = subprocess.run([os.path.join(V, "check"), p], cwd=V, env=env, capture_output=True, text=True).stdout
            for m in re.finditer(r"^  key=(.*)\n  (.*)$", out, re.M):
                alarms.append((p, m.group(1), m.group(2)[:160]))
        lines.append("%s %s" % (d, "ALARMS:" if alarms else "silent"))
        seen = set()
        for p, k, w in alarms:
            if k in seen:
                continue
            seen.add(k)
            lines.append("    %s %s \n         %s" % (p, k[:150], w))
    finally:
        shutil.rmtree(scratch, ignore_errors=True)
    print("\n".join(lines), flush=True)
    return lines


ThreadPool(jobs).map(one, dirs, chunksize=1)
