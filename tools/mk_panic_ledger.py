#!/usr/bin/env python3
"""One-off helper used while reviewing the panic-site census: writes ledger/panic_sites.tsv from
reviewed (pattern -> class, reason) rules.  The ledger, not this script, is what the checker reads;
every line was read against the source before it was frozen."""
import re, sys, os
sys.path.insert(0, os.path.join(os.path.dirname(os.path.dirname(os.path.abspath(__file__))), "rules"))
import facts, r_panic

RULES = [
 # (regex over key, class, reason)
 (r"parser::parse\|unwrap\|Result::expect#0", "O-RULE:R-GRAMMAR.total", "LaxLiquidFile cannot fail (grammar totality is re-checked on every run)"),
 (r"parser::parse\|unwrap\|Option::expect#0", "G-TOP", "a successful parse of a non-silent start rule yields exactly that rule's pair"),
 (r"parser::parse_variable\|unwrap\|Option::expect#0", "G-TOP", "a successful parse of the non-silent rule Variable yields its pair"),
 (r"parse_literal\|panic\|panic#0", "D-RULE:Literal:callers=liquid_core::parser::parser::parse_value,<liquid_core::parser::parser::TagToken>::expect_literal", "callers pass a pair whose rule was tested to be Literal (match arm / unwrap_literal)"),
 (r"parse_literal\|unwrap\|Option::expect#0", "G-CHILD:Literal:0", "Literal always has one child"),
 (r"parse_literal\|panic\|unreachable", "G-ALT:Literal:0", "the match covers every alternative of Literal"),
 (r"parse_literal\|unwrap\|Result::expect#0", "KNOWN:F-LIT64", "IntegerLiteral admits unbounded digits: i64 parse can fail"),
 (r"parse_literal\|unwrap\|Result::expect#1", "G-LANG:FloatLiteral:f64", "sign? digits . digits is always accepted by f64::from_str"),
 (r"parse_literal\|unwrap\|Result::expect#2", "G-LANG:BooleanLiteral:bool", "BooleanLiteral is exactly true|false"),
 (r"parse_variable_pair\|panic\|panic#0", "D-RULE:Variable:callers=liquid_core::parser::parser::parse_value,liquid_core::parser::parser::parse_variable,<liquid_core::parser::parser::TagToken>::expect_variable", "callers pass a Variable pair (match arm / start rule / unwrap_variable)"),
 (r"parse_variable_pair\|unwrap\|Option::expect#0", "G-CHILD:Variable:0", "Variable starts with an Identifier"),
 (r"parse_variable_pair::\{closure#0\}\|panic\|unreachable", "G-ALT:Variable:*", "children of Variable are Identifier or Value only"),
 (r"parse_value\|panic\|panic#0", "D-RULE:Value:callers=liquid_core::parser::parser::parse_filter,liquid_core::parser::parser::parse_filter_chain,liquid_core::parser::parser::parse_variable_pair::{closure#0},<liquid_core::parser::parser::TagToken>::expect_range,<liquid_core::parser::parser::TagToken>::expect_value", "callers pass children that the grammar fixes to Value"),
 (r"parse_value\|unwrap\|Option::expect#0", "G-CHILD:Value:0", "Value always has one child"),
 (r"parse_value\|panic\|unreachable", "G-ALT:Value:0", "Value is Literal | Variable"),
 (r"parse_filter\|panic\|panic#0", "D-RULE:Filter:callers=liquid_core::parser::parser::parse_filter_chain::{closure#0}", "parse_filter_chain maps the Filter children of a FilterChain"),
 (r"parse_filter\|unwrap\|Option::expect#0", "G-CHILD:Filter:0", "Filter starts with an Identifier"),
 (r"parse_filter\|unwrap\|Option::expect#1", "G-CHILD:PositionalFilterArgument:0", "PositionalFilterArgument = Value"),
 (r"parse_filter\|unwrap\|Option::expect#2", "G-CHILD:KeywordFilterArgument:0", "KeywordFilterArgument = Identifier : Value"),
 (r"parse_filter\|unwrap\|Option::expect#3", "G-CHILD:KeywordFilterArgument:1", "KeywordFilterArgument = Identifier : Value"),
 (r"parse_filter\|panic\|unreachable", "G-ALT:Filter:args", "arguments of a Filter are Positional or Keyword arguments"),
 (r"parse_filter_chain\|panic\|panic#0", "D-RULE:FilterChain:callers=<liquid_core::parser::parser::Exp>::parse,<liquid_core::parser::parser::TagToken>::expect_filter_chain,<liquid_core::parser::parser::TagToken>::expect_filter_chain_err", "callers unwrap ExpressionInner / test the token rule"),
 (r"parse_filter_chain\|unwrap\|Option::expect#0", "G-CHILD:FilterChain:0", "FilterChain starts with a Value"),
 (r"Exp>::parse\|unwrap\|Option::expect#0", "G-CHILD:Expression:0", "Expression contains ExpressionInner"),
 (r"Exp>::parse\|unwrap\|Option::expect#1", "G-CHILD:ExpressionInner:0", "ExpressionInner = FilterChain"),
 (r"TagBlock>::next\|unwrap\|Option::expect#0", "G-CHILD:Tag:0", "Tag contains TagInner"),
 (r"TagBlock>::next\|unwrap\|Option::expect#1", "G-CHILD:TagInner:0", "TagInner starts with an Identifier"),
 (r"TagBlock>::escape_liquid\|panic\|panic#0", "D-LOCAL", "documented precondition: blocks call escape_liquid first, on an open block (closed is set only by next/escape_liquid themselves)"),
 (r"TagBlock>::escape_liquid\|unwrap\|Option::expect#0", "G-CHILD:Tag:0", "Tag contains TagInner"),
 (r"TagBlock>::escape_liquid\|unwrap\|Option::expect#1", "G-CHILD:TagInner:0", "TagInner starts with an Identifier"),
 (r"TagBlock>::escape_liquid\|unwrap\|Option::expect#2", "D-LOCAL", "start_pos is assigned on the first loop iteration before any return"),
 (r"TagBlock>::assert_empty\|panic\|assert", "O-RULE:R-CLOSED", "every ParseBlock reaches assert_empty only after the block reader returned None/closed (must-pass-through, checked)"),
 (r"Tag as core::convert::From<.*>::from\|panic", "D-RULE:Tag:callers=<liquid_core::parser::parser::BlockElement as core::convert::From<pest::iterators::pair::Pair<liquid_core::parser::parser::inner::Rule>>>::from,<liquid_core::parser::parser::Tag>::new", "BlockElement::from matches Rule::Tag; Tag::new parsed Rule::Tag"),
 (r"Tag as core::convert::From<.*>::from\|unwrap\|Option::expect#0", "G-CHILD:Tag:0", "Tag contains TagInner"),
 (r"Tag as core::convert::From<.*>::from\|unwrap\|Option::expect#1", "G-CHILD:TagInner:0", "TagInner starts with an Identifier"),
 (r"Raw as core::convert::From<.*>::from\|panic", "D-RULE:Raw:callers=<liquid_core::parser::parser::BlockElement as core::convert::From<pest::iterators::pair::Pair<liquid_core::parser::parser::inner::Rule>>>::from", "BlockElement::from matches Rule::Raw"),
 (r"Exp as core::convert::From<.*>::from\|panic", "D-RULE:Expression:callers=<liquid_core::parser::parser::BlockElement as core::convert::From<pest::iterators::pair::Pair<liquid_core::parser::parser::inner::Rule>>>::from", "BlockElement::from matches Rule::Expression"),
 (r"InvalidLiquidToken as core::convert::From<.*>::from\|panic", "D-RULE:InvalidLiquid:callers=<liquid_core::parser::parser::BlockElement as core::convert::From<pest::iterators::pair::Pair<liquid_core::parser::parser::inner::Rule>>>::from", "BlockElement::from matches Rule::InvalidLiquid"),
 (r"BlockElement as core::convert::From<.*>::from\|panic", "G-ALT:LaxLiquidFile:elements", "children of LaxLiquidFile are Expression, Tag, Raw, InvalidLiquid or EOI; EOI is filtered by the callers before conversion"),
 (r"InvalidLiquidToken>::parse_pair\|panic\|panic#0", "L-REASON", "the span starts at an element that failed under the lax rule, so the strict LiquidFile re-parse of that text fails"),
 (r"InvalidLiquidToken>::parse_pair\|assert\|", "L-REASON", "pest line numbers are 1-based"),
 (r"TagToken>::unwrap_value\|unwrap", "G-CHILD:FilterChain:0", "FilterChain starts with a Value"),
 (r"TagToken>::unwrap_variable\|unwrap", "G-CHILD:Value:0", "Value has one child"),
 (r"TagToken>::unwrap_literal\|unwrap", "G-CHILD:Value:0", "Value has one child"),
 (r"TagToken>::unwrap_identifier\|unwrap", "G-CHILD:Variable:0", "Variable starts with an Identifier"),
 (r"TagToken>::expect_range\|unwrap\|Option::expect#0", "G-CHILD:Range:0", "Range = ( Value .. Value )"),
 (r"TagToken>::expect_range\|unwrap\|Option::expect#1", "G-CHILD:Range:1", "Range = ( Value .. Value )"),
 (r"PeekableTagTokenIter>::peek\|panic\|unreachable", "D-LOCAL", "self.peeked is assigned Some in the branch that precedes the match"),
 (r"parse_cycle\|unwrap\|Option::expect", "D-LOCAL", "inside the Some(_) arm of a match on the same option"),
 (r"Error>::context_cow_string\|unwrap", "L-REASON", "Error::with_msg seeds one trace and nothing removes traces"),
 (r"Variable>::evaluate::\{closure#0\}\|unwrap", "L-REASON", "re-evaluation of an expression that was evaluated successfully just before, with no intervening write"),
 (r"find::find\|panic\|panic#0", "O-RULE:R-FWD.keying", "every caller looks up only after the layer's membership test on path.first() succeeded, so the length-1 prefix resolves"),
 (r"find::find\|assert\|BoundsCheck", "D-LOCAL", "subpath_end = len - cur_idx with 1 <= cur_idx < len"),
 (r"find::find\|index\|\[", "D-LOCAL", "0..subpath_end with subpath_end < len"),
 (r"find::find\|precond\|.*insert", "D-LOCAL", "insert(0, ..) is always within bounds"),
 (r"RuntimeCore as .*Runtime>::set_(global|index)\|panic\|unreachable", "O-RULE:R-SCOPETYPE.core-masked", "RuntimeCore is only built inside RuntimeBuilder::build under IndexFrame and GlobalFrame"),
 (r"LazyStore<S>>::(try_)?get_or_create\|unwrap\|Result::expect", "O-RULE:R-LOCK", "poisoning needs a panic under the lock: every callee there is parser code covered by this census"),
 (r"convert_buffer\|unwrap|Renderable::render\|unwrap|Capture as .*render_to\|unwrap|IfChanged as .*render_to\|unwrap", "O-RULE:R-UTF8SINK", "only str-derived bytes are written to the buffer"),
 (r"parse_date_time\|unwrap\|Result::unwrap", "CONST-REGEX", "constant pattern"),
 (r"ArrayToSentenceStringFilter as .*evaluate\|unwrap", "D-STRINGFMT", "fmt::Write for String is infallible"),
 (r"strftime::strftime\|unwrap\|Result::unwrap", "D-STRINGFMT", "fmt::Write for String is infallible"),
 (r"strftime::strftime\|assert\|BoundsCheck", "L-REASON", "MONTH_NAMES/WEEKDAY_NAMES are indexed by time::Month (1..=12) - 1 and time::Weekday (0..7)"),
 (r"strftime::strftime\|precond\|core::num::<impl i8>::abs", "L-REASON", "UTC offset components are within +-25 hours/59 minutes: never i8::MIN"),
 (r"strftime::strftime\|precond\|core::num::<impl i64>::abs", "L-REASON", "calendar fields of time::OffsetDateTime (year within +-999999): never i64::MIN"),
 (r"strftime::strftime\|precond\|core::num::<impl u32>::pow", "O-RULE:R-ARITH", "exponent <= 9 (ledger/arith.tsv)"),
 (r"ShiftFilter as .*evaluate\|precond\|.*remove", "D-GUARD:is_empty", "remove(0) only on the branch where the vector is not empty"),
 (r"UnshiftFilter as .*evaluate\|precond\|.*insert", "D-LOCAL", "insert(0, ..) is always within bounds"),
 (r"ReplaceFirstFilter as .*evaluate\|index\|alloc::vec::Vec<&str>", "D-GUARD:len==2", "tokens[0], tokens[1] under tokens.len() == 2"),
 (r"CycleRegister>::cycle\|assert\|BoundsCheck", "D-CMP", "index >= values.len() returns before the indexing"),
 (r"html::escape\|panic\|unreachable", "D-LOCAL", "the enclosing arm already restricted c to the five characters matched"),
 (r"iter_array\|precond\|.*drain", "D-MIN", "drain(0..offset) with offset = min(offset, len)"),
 (r"safe_property_getter\|unwrap", "L-REASON", "(removed by fix)"),
]

P = facts.load("all")
c = r_panic.census(P)
out = []
unmatched = []
for k, v in sorted(c.items()):
    if v["kind"] == "assert" and not v["detail"].startswith("Bounds"):
        continue
    if v["kind"] == "refcell":
        continue
    if v["kind"] == "index" and v["detail"] in ("str", "alloc::string::String"):
        continue
    for pat, cls, reason in RULES:
        if re.search(pat, k):
            out.append((k, cls, reason))
            break
    else:
        unmatched.append(k)
path = os.path.join(os.path.dirname(os.path.dirname(os.path.abspath(__file__))), "ledger", "panic_sites.tsv")
with open(path, "w") as fh:
    fh.write("# key\tclass\treason  — reviewed discharge of every panic-capable site reachable from parse/render (see rules/r_panic.py)\n")
    for k, cls, reason in out:
        fh.write("%s\t%s\t%s\n" % (k, cls, reason))
print("ledgered", len(out), "unmatched", len(unmatched))
for k in unmatched:
    print("  ", k)
