#!/bin/bash
# seedcheck.sh <Cxx> <variant> [props...]: apply the seeded patch to /repo, run the quick checks, undo.
ID=$1; V=$2; shift 2
PROPS=${@:-$ID}
S=/verif/seeded/$ID-$V
[ -d $S ] || S=/var/tmp/seed/$ID/$V
P=$S/patch.diff; [ -f $S/patch.rebased.diff ] && P=$S/patch.rebased.diff
git -C /repo apply $P || { echo "PATCH DOES NOT APPLY"; exit 2; }
for p in $PROPS; do (cd /verif && LR_EVIDENCE_DIR=/var/tmp/lr-evidence ./check $p | grep -E "^property|VIOLATION|^  rule|^  key|^  [A-Za-z]" | grep -v "^  R-" ); done
git -C /repo checkout -- .
