#!/bin/bash
# confirm_seed.sh <Cxx> <variant>: independently confirm a seeded change in a scratch worktree of /repo HEAD:
#   demo passes on the unchanged tree, patch applies, demo fails with it, the existing suite still passes with it.
# Writes /var/tmp/seed/<Cxx>/<variant>/confirm.json ; removes the worktree afterwards.
set -u
ID=$1; V=$2
S=/var/tmp/seed/$ID/$V
WT=/var/tmp/cf/wt-$ID-$V
export CARGO_TARGET_DIR=/var/tmp/cf/target CARGO_NET_OFFLINE=true
mkdir -p /var/tmp/cf
git -C /repo worktree remove --force $WT 2>/dev/null
git -C /repo worktree add -q --detach $WT HEAD || exit 2
cd $WT
cp $S/demo.rs tests/seed_demo.rs
r_pristine=$(cargo test --offline --test seed_demo > $S/confirm_pristine.log 2>&1; echo $?)
P=$S/patch.diff; [ -f $S/patch.rebased.diff ] && P=$S/patch.rebased.diff
if git apply --check $P 2>/dev/null; then applies=0; git apply $P; else applies=1; fi
r_demo=$(cargo test --offline --test seed_demo > $S/confirm_demo.log 2>&1; echo $?)
rm -f tests/seed_demo.rs
r_suite=$(cargo test --workspace --no-fail-fast --offline > $S/confirm_suite.log 2>&1; echo $?)
nfail=$(grep -c "^test .* FAILED" $S/confirm_suite.log)
cd /
git -C /repo worktree remove --force $WT
head=$(git -C /repo rev-parse --short HEAD)
echo "{\"id\":\"$ID\",\"variant\":\"$V\",\"repo_head\":\"$head\",\"patch_applies\":$applies,\"demo_on_unchanged_exit\":$r_pristine,\"demo_with_change_exit\":$r_demo,\"suite_with_change_exit\":$r_suite,\"suite_failed_tests\":$nfail}" > $S/confirm.json
cat $S/confirm.json
