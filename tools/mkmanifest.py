#!/usr/bin/env python3
"""Regenerate MANIFEST.json from rules/props.py (claimed checks) and ledger/not_applicable.json."""
import json, os, sys
V = os.path.dirname(os.path.dirname(os.path.abspath(__file__)))
sys.path.insert(0, os.path.join(V, "rules"))
import props

ids = [json.loads(l)["id"] for l in open(os.path.join(V, "properties.jsonl"))]
na = json.load(open(os.path.join(V, "ledger", "not_applicable.json")))
checks = []
for pid in ids:
    if pid not in props.PROPS:
        continue
    s = props.PROPS[pid]
    checks.append({
        "property_id": pid,
        "quick_cmd": "./check %s --tier quick" % pid,
        "thorough_cmd": "./check %s --tier thorough" % pid,
        "evidence_file": "/verif/evidence/%s.json" % pid,
        "replay_cmd_template": "./check %s --replay {path}" % pid,
        "engine": "lrfacts+rules",
        "level_claimed": {"category": s["level"], "text": s["explanation"], "design_ref": s["design_ref"]},
        "level_note": s["note"],
        "technique": s["technique"],
    })
m = {
    "version": 1,
    "setup_cmd": "./setup.sh",
    "hooks": {
        "guard": "liquid_rust_verif",
        "enable": "none needed: the checks read rustc's analysis of /repo as it is; no hook code exists in /repo",
        "baseline_off_cmd": "cd /repo && cargo test --workspace --no-fail-fast --offline",
        "source_commits": [],
        "add_only": True,
    },
    "engines": [
        {"name": "lrfacts", "path": "driver/", "serves_properties": [c["property_id"] for c in checks],
         "kind_free_text": "rustc_private driver (nightly) run under cargo check on /repo: dumps MIR, resolved callees, types, impls as JSON facts"},
        {"name": "pestfacts", "path": "pestfacts/", "serves_properties": [p for p in ("C01", "C03", "C07") if p in props.PROPS],
         "kind_free_text": "pest_meta front end: grammar.pest -> AST json; grammar analyses in rules/"},
        {"name": "rules", "path": "rules/", "serves_properties": [c["property_id"] for c in checks],
         "kind_free_text": "python3 stdlib rule layer: CFG, dominators, call graph (CHA), token/value-flow trackers, ledgers, floors"},
        {"name": "witness", "path": "witness/", "serves_properties": [p for p in ("C09", "C20") if p in props.PROPS],
         "kind_free_text": "compile-pass / compile_fail doc-test witnesses decided by rustc's auto-trait checking"},
    ],
    "checks": checks,
    "notes": "Static analysis only. Each check decides the structural clauses named in its level text for all inputs; the behavioural remainder of each property is declared not decided (DESIGN.md §4).",
    "not_applicable": [{"property_id": p, "reason": na[p]} for p in ids if p not in props.PROPS],
}
json.dump(m, open(os.path.join(V, "MANIFEST.json"), "w"), indent=1)
print("claimed:", [c["property_id"] for c in checks])
print("not_applicable:", [x["property_id"] for x in m["not_applicable"]])
