// pestfacts: parse a .pest grammar with pest_meta (the front end pest_derive uses) and dump its
// AST as JSON.  Static: the grammar is analysed as source, the generated parser is never run.
use pest_meta::ast::{Expr, Rule, RuleType};
use pest_meta::parser::{self, Rule as MetaRule};

fn esc(s: &str) -> String {
    let mut o = String::from("\"");
    for c in s.chars() {
        match c {
            '"' => o.push_str("\\\""),
            '\\' => o.push_str("\\\\"),
            '\n' => o.push_str("\\n"),
            '\r' => o.push_str("\\r"),
            '\t' => o.push_str("\\t"),
            c if (c as u32) < 0x20 => o.push_str(&format!("\\u{:04x}", c as u32)),
            c => o.push(c),
        }
    }
    o.push('"');
    o
}

fn expr(e: &Expr) -> String {
    match e {
        Expr::Str(s) => format!("{{\"k\":\"str\",\"v\":{}}}", esc(s)),
        Expr::Insens(s) => format!("{{\"k\":\"insens\",\"v\":{}}}", esc(s)),
        Expr::Range(a, b) => format!("{{\"k\":\"range\",\"a\":{},\"b\":{}}}", esc(a), esc(b)),
        Expr::Ident(s) => format!("{{\"k\":\"ident\",\"v\":{}}}", esc(s)),
        Expr::PeekSlice(a, b) => format!("{{\"k\":\"peekslice\",\"a\":{},\"b\":{}}}", a, b.map(|x| x.to_string()).unwrap_or("null".into())),
        Expr::PosPred(a) => format!("{{\"k\":\"pos\",\"e\":{}}}", expr(a)),
        Expr::NegPred(a) => format!("{{\"k\":\"neg\",\"e\":{}}}", expr(a)),
        Expr::Seq(a, b) => format!("{{\"k\":\"seq\",\"a\":{},\"b\":{}}}", expr(a), expr(b)),
        Expr::Choice(a, b) => format!("{{\"k\":\"choice\",\"a\":{},\"b\":{}}}", expr(a), expr(b)),
        Expr::Opt(a) => format!("{{\"k\":\"opt\",\"e\":{}}}", expr(a)),
        Expr::Rep(a) => format!("{{\"k\":\"rep\",\"e\":{}}}", expr(a)),
        Expr::RepOnce(a) => format!("{{\"k\":\"rep1\",\"e\":{}}}", expr(a)),
        Expr::RepExact(a, n) => format!("{{\"k\":\"repn\",\"e\":{},\"min\":{},\"max\":{}}}", expr(a), n, n),
        Expr::RepMin(a, n) => format!("{{\"k\":\"repn\",\"e\":{},\"min\":{},\"max\":null}}", expr(a), n),
        Expr::RepMax(a, n) => format!("{{\"k\":\"repn\",\"e\":{},\"min\":0,\"max\":{}}}", expr(a), n),
        Expr::RepMinMax(a, n, m) => format!("{{\"k\":\"repn\",\"e\":{},\"min\":{},\"max\":{}}}", expr(a), n, m),
        Expr::Skip(v) => format!("{{\"k\":\"skip\",\"v\":[{}]}}", v.iter().map(|s| esc(s)).collect::<Vec<_>>().join(",")),
        Expr::Push(a) => format!("{{\"k\":\"push\",\"e\":{}}}", expr(a)),
        #[allow(unreachable_patterns)]
        _ => "{\"k\":\"other\"}".to_string(),
    }
}

fn main() {
    let path = std::env::args().nth(1).expect("usage: pestfacts <grammar.pest>");
    let src = std::fs::read_to_string(&path).expect("read grammar");
    let pairs = match parser::parse(MetaRule::grammar_rules, &src) {
        Ok(p) => p,
        Err(e) => {
            eprintln!("grammar does not parse: {}", e);
            std::process::exit(3);
        }
    };
    if let Err(errs) = pest_meta::validator::validate_pairs(pairs.clone()) {
        for e in errs {
            eprintln!("grammar invalid: {}", e);
        }
        std::process::exit(3);
    }
    let rules: Vec<Rule> = match parser::consume_rules(pairs) {
        Ok(r) => r,
        Err(errs) => {
            for e in errs {
                eprintln!("grammar invalid: {}", e);
            }
            std::process::exit(3);
        }
    };
    let mut out = String::from("{\"rules\":[");
    for (i, r) in rules.iter().enumerate() {
        if i > 0 {
            out.push(',');
        }
        let ty = match r.ty {
            RuleType::Normal => "normal",
            RuleType::Silent => "silent",
            RuleType::Atomic => "atomic",
            RuleType::CompoundAtomic => "compound",
            RuleType::NonAtomic => "nonatomic",
        };
        out.push_str(&format!("{{\"name\":{},\"ty\":\"{}\",\"e\":{}}}", esc(&r.name), ty, expr(&r.expr)));
    }
    out.push_str("]}");
    println!("{}", out);
}
